// Package vsync is a drop-in for the subset of package sync used by jsight-api-core and jsight-schema-core (Mutex,
// RWMutex, Once, Pool, WaitGroup). A build overlay links it in place of "sync" in both modules; every operation is a
// scheduling point of a cooperative scheduler, so that the explorer decides every interleaving. Without an active
// scheduler the primitives behave like their sequential counterparts (used while scenarios are set up).
package vsync

import (
	"fmt"
	"runtime"
	"sort"
	"strings"
	"unsafe"
)

type Locker interface {
	Lock()
	Unlock()
}

// ---------------------------------------------------------------- scheduler

type thread struct {
	id      int
	wake    chan struct{}
	done    bool
	blocked func() bool // non-nil while the thread waits; returns true while it must keep waiting
	lastObj uintptr
	lastOp  string
	inOnce  int
}

// Point describes one decision the scheduler took.
type Point struct {
	Kind     string // "thread" or "pool"
	Arity    int
	Taken    int
	Preempts bool // taking a non-zero alternative here switches away from a runnable thread
	Obj      uintptr
	Op       string
}

type Sched struct {
	threads []*thread
	cur     *thread
	back    chan struct{}

	// Choice source: prefix of recorded choices, canonical (0) afterwards.
	Prefix []int
	Points []Point

	// Shared: when non-nil, only operations on these objects are scheduling points (reduction); Touched records, for
	// every object, the set of threads that operated on it (bit mask).
	Shared  map[uintptr]bool
	Touched map[uintptr]uint32

	// OnlyOnce: only operations on package-level objects, and everything inside a package-level Once.Do, are
	// scheduling points (first-use scenario).
	OnlyOnce bool

	// FreshPools: Pool.Get always allocates (an equally legal sync.Pool behaviour). With FreshOwner set this applies only
	// to the pools whose first user is a function of that package path prefix (attribution of a divergence to one module).
	FreshPools bool
	FreshOwner string

	Deadlock bool
	Steps    int
	MaxSteps int
	Livelock bool
}

// S is the active scheduler (nil: sequential pass-through).
var S *Sched

func (s *Sched) choose(kind string, n int, preempts bool, obj uintptr, op string) int {
	k := 0
	i := len(s.Points)
	if i < len(s.Prefix) {
		k = s.Prefix[i]
		if k >= n {
			panic(fmt.Sprintf("vsync: replay divergence at point %d (%s %s): choice %d of %d", i, kind, op, k, n))
		}
	}
	s.Points = append(s.Points, Point{Kind: kind, Arity: n, Taken: k, Preempts: preempts, Obj: obj, Op: op})
	return k
}

// yield hands control back to the scheduler loop and waits to be resumed.
func (s *Sched) yield() {
	me := s.cur
	s.back <- struct{}{}
	<-me.wake
}

func point(obj unsafe.Pointer, op string) {
	s := S
	if s == nil || s.cur == nil {
		return
	}
	o := uintptr(obj)
	if s.Touched != nil {
		s.Touched[o] |= 1 << uint(s.cur.id)
	}
	if s.OnlyOnce {
		// first-use scenario: only package-level objects (data/bss segment, below the heap arena) and what happens
		// inside their Once.Do are scheduling points
		if !(o < 0xc000000000 || s.cur.inOnce > 0) {
			return
		}
	} else if s.Shared != nil && !s.Shared[o] {
		return
	}
	s.cur.lastObj, s.cur.lastOp = o, op
	s.yield()
}

func blockUntil(cond func() bool) {
	s := S
	if s == nil || s.cur == nil {
		if !cond() {
			panic("vsync: operation would block outside the scheduler")
		}
		return
	}
	for !cond() {
		me := s.cur
		me.blocked = func() bool { return !cond() }
		s.yield()
	}
}

// Run executes fns as cooperative threads until all are done (or deadlock / step limit).
func (s *Sched) Run(fns ...func()) {
	s.back = make(chan struct{})
	if s.MaxSteps == 0 {
		s.MaxSteps = 200000
	}
	for i, f := range fns {
		t := &thread{id: i, wake: make(chan struct{})}
		s.threads = append(s.threads, t)
		f := f
		go func() {
			<-t.wake
			f()
			t.done = true
			s.back <- struct{}{}
		}()
	}
	S = s
	defer func() { S = nil }()
	var cur *thread
	for {
		var en []*thread
		for _, t := range s.threads {
			if !t.done && (t.blocked == nil || !t.blocked()) {
				en = append(en, t)
			}
		}
		if len(en) == 0 {
			for _, t := range s.threads {
				if !t.done {
					s.Deadlock = true
				}
			}
			return
		}
		s.Steps++
		if s.Steps > s.MaxSteps {
			s.Livelock = true
			return
		}
		curEnabled := false
		for _, t := range en {
			if t == cur {
				curEnabled = true
			}
		}
		// canonical order: the running thread first (if still enabled), then ascending ids
		order := make([]*thread, 0, len(en))
		if curEnabled {
			order = append(order, cur)
		}
		for _, t := range en {
			if !(curEnabled && t == cur) {
				order = append(order, t)
			}
		}
		k := 0
		if len(order) > 1 {
			var obj uintptr
			op := "start"
			if cur != nil {
				obj, op = cur.lastObj, cur.lastOp
			}
			k = s.choose("thread", len(order), curEnabled, obj, op)
		}
		cur = order[k]
		cur.blocked = nil
		s.cur = cur
		cur.wake <- struct{}{}
		<-s.back
	}
}

// ---------------------------------------------------------------- primitives

type Mutex struct{ locked bool }

func (m *Mutex) Lock() {
	point(unsafe.Pointer(m), "Mutex.Lock")
	blockUntil(func() bool { return !m.locked })
	m.locked = true
}

func (m *Mutex) Unlock() {
	point(unsafe.Pointer(m), "Mutex.Unlock")
	if !m.locked {
		panic("sync: unlock of unlocked mutex")
	}
	m.locked = false
}

func (m *Mutex) TryLock() bool {
	point(unsafe.Pointer(m), "Mutex.TryLock")
	if m.locked {
		return false
	}
	m.locked = true
	return true
}

type RWMutex struct {
	w       bool
	readers int
}

func (m *RWMutex) Lock() {
	point(unsafe.Pointer(m), "RWMutex.Lock")
	blockUntil(func() bool { return !m.w && m.readers == 0 })
	m.w = true
}

func (m *RWMutex) Unlock() {
	point(unsafe.Pointer(m), "RWMutex.Unlock")
	if !m.w {
		panic("sync: Unlock of unlocked RWMutex")
	}
	m.w = false
}

func (m *RWMutex) RLock() {
	point(unsafe.Pointer(m), "RWMutex.RLock")
	blockUntil(func() bool { return !m.w })
	m.readers++
}

func (m *RWMutex) RUnlock() {
	point(unsafe.Pointer(m), "RWMutex.RUnlock")
	if m.readers <= 0 {
		panic("sync: RUnlock of unlocked RWMutex")
	}
	m.readers--
}

func (m *RWMutex) RLocker() Locker { return (*rlocker)(m) }

type rlocker RWMutex

func (r *rlocker) Lock()   { (*RWMutex)(r).RLock() }
func (r *rlocker) Unlock() { (*RWMutex)(r).RUnlock() }

type Once struct {
	done bool
	m    Mutex
}

var onces = map[*Once]bool{}

func (o *Once) Do(f func()) {
	point(unsafe.Pointer(o), "Once.Do")
	onces[o] = true
	if o.done {
		return
	}
	if s := S; s != nil && s.cur != nil && uintptr(unsafe.Pointer(o)) < 0xc000000000 {
		t := s.cur
		t.inOnce++
		defer func() { t.inOnce-- }()
	}
	o.m.Lock()
	defer o.m.Unlock()
	if !o.done {
		defer func() { o.done = true }()
		f()
	}
}

type WaitGroup struct{ n int }

func (w *WaitGroup) Add(d int) { point(unsafe.Pointer(w), "WaitGroup.Add"); w.n += d }
func (w *WaitGroup) Done()     { w.Add(-1) }
func (w *WaitGroup) Wait() {
	point(unsafe.Pointer(w), "WaitGroup.Wait")
	blockUntil(func() bool { return w.n <= 0 })
}

type Pool struct {
	New   func() any
	free  []any
	reg   bool
	owner string // function that used the pool first
}

func (p *Pool) register() {
	p.reg = true
	pools = append(pools, p)
	pc := make([]uintptr, 8)
	n := runtime.Callers(3, pc)
	fr := runtime.CallersFrames(pc[:n])
	for {
		f, more := fr.Next()
		if !strings.Contains(f.Function, "verif/shim/vsync") {
			p.owner = f.Function
			break
		}
		if !more {
			break
		}
	}
}

// PoolOwners lists the first user of every pool seen so far.
func PoolOwners() []string {
	var out []string
	for _, p := range pools {
		out = append(out, p.owner)
	}
	sort.Strings(out)
	return out
}

var pools []*Pool

// ResetPools empties every pool seen so far (executions must be independent).
func ResetPools() {
	for _, p := range pools {
		p.free = nil
	}
}

// PoolCount is the number of distinct pools the library used so far.
func PoolCount() int { return len(pools) }

func (p *Pool) Get() any {
	if !p.reg {
		p.register()
	}
	point(unsafe.Pointer(p), "Pool.Get")
	s := S
	n := len(p.free)
	if n > 0 {
		// default: most recently put (LIFO); alternatives: any older object, or a fresh one
		k := 0
		if s != nil && s.cur != nil && (s.Shared == nil || s.Shared[uintptr(unsafe.Pointer(p))]) {
			k = s.choose("pool", n+1, false, uintptr(unsafe.Pointer(p)), "Pool.Get")
		}
		if k < n {
			i := n - 1 - k
			x := p.free[i]
			p.free = append(p.free[:i], p.free[i+1:]...)
			if s == nil || !s.FreshPools || (s.FreshOwner != "" && !strings.HasPrefix(p.owner, s.FreshOwner)) {
				return x
			}
			// FreshPools: the same decision points are taken, but a new object is handed out (equally legal)
		}
	}
	if p.New != nil {
		return p.New()
	}
	return nil
}

func (p *Pool) Put(x any) {
	if !p.reg {
		p.register()
	}
	point(unsafe.Pointer(p), "Pool.Put")
	p.free = append(p.free, x)
	// the window after Put contains no synchronisation operation: make it schedulable
	point(unsafe.Pointer(p), "Pool.Put(after)")
}

// SharedObjects returns the objects touched by at least two threads in the execution.
func (s *Sched) SharedObjects() map[uintptr]bool {
	out := map[uintptr]bool{}
	for o, m := range s.Touched {
		if m&(m-1) != 0 {
			out[o] = true
		}
	}
	return out
}

// Describe renders the decisions taken (for replay artefacts).
func (s *Sched) Describe() []string {
	var out []string
	for i, p := range s.Points {
		if p.Taken != 0 {
			out = append(out, fmt.Sprintf("point %d (%s after %s): alternative %d of %d", i, p.Kind, p.Op, p.Taken, p.Arity))
		}
	}
	sort.Strings(out)
	return out
}
