// Package vsync is a drop-in for the subset of package sync used by jsight-api-core and jsight-schema-core (Mutex,
// RWMutex, Once, Pool, WaitGroup). A build overlay links it in place of "sync" in both modules; every operation is a
// scheduling point of a cooperative scheduler, so that the explorer decides every interleaving. Without an active
// scheduler the primitives behave like their sequential counterparts (used while scenarios are set up).
package vsync

import (
	"fmt"
	"runtime"
	"sort"
	"strings"
	"unsafe"
)

type Locker interface {
	Lock()
	Unlock()
}

// ---------------------------------------------------------------- scheduler

type thread struct {
	id      int
	wake    chan struct{}
	done    bool
	blocked func() bool // non-nil while the thread waits; returns true while it must keep waiting
	lastObj uintptr
	lastOp  string
	inOnce  int
	inSel   bool // parked in a select statement
}

// Point describes one decision the scheduler took.
type Point struct {
	Kind     string // "thread" or "pool"
	Arity    int
	Taken    int
	Preempts bool // taking a non-zero alternative here switches away from a runnable thread
	Obj      uintptr
	Op       string
}

type Sched struct {
	threads []*thread
	cur     *thread
	back    chan struct{}

	// Choice source: prefix of recorded choices, canonical (0) afterwards.
	Prefix []int
	Points []Point

	// Shared: when non-nil, only operations on these objects are scheduling points (reduction); Touched records, for
	// every object, the set of threads that operated on it (bit mask).
	Shared    map[uintptr]bool
	Touched   map[uintptr]uint32
	TouchedOp map[uintptr]string // last operation seen on each object (diagnostics)
	keep      []unsafe.Pointer

	// OnlyOnce: only operations on package-level objects, and everything inside a package-level Once.Do, are
	// scheduling points (first-use scenario).
	OnlyOnce bool

	// FreshPools: Pool.Get always allocates (an equally legal sync.Pool behaviour). With FreshOwner set this applies only
	// to the pools whose first user is a function of that package path prefix (attribution of a divergence to one module).
	FreshPools bool
	FreshOwner string

	spawned int
	initial int
	// Leaked: threads the library started that are still blocked when every initial thread has finished (a goroutine
	// leak, not a deadlock). SelectLimit: a deadlock was declared while a thread was parked in a select statement (two
	// select statements facing each other on an unbuffered channel are not modelled) — not believed.
	Leaked      int
	SelectLimit bool
	Deadlock    bool
	Steps       int
	MaxSteps    int
	Livelock    bool
}

// S is the active scheduler (nil: sequential pass-through).
var S *Sched

func (s *Sched) choose(kind string, n int, preempts bool, obj uintptr, op string) int {
	k := 0
	i := len(s.Points)
	if i < len(s.Prefix) {
		k = s.Prefix[i]
		if k >= n {
			panic(fmt.Sprintf("vsync: replay divergence at point %d (%s %s): choice %d of %d", i, kind, op, k, n))
		}
	}
	s.Points = append(s.Points, Point{Kind: kind, Arity: n, Taken: k, Preempts: preempts, Obj: obj, Op: op})
	return k
}

// yield hands control back to the scheduler loop and waits to be resumed.
func (s *Sched) yield() {
	me := s.cur
	s.back <- struct{}{}
	<-me.wake
}

func point(obj unsafe.Pointer, op string) {
	s := S
	if s == nil || s.cur == nil {
		return
	}
	o := uintptr(obj)
	if s.Touched != nil {
		if _, seen := s.Touched[o]; !seen {
			// keep the object alive until the execution ends: an address reused after a collection would look like an
			// object shared by two threads
			s.keep = append(s.keep, obj)
		}
		s.Touched[o] |= 1 << uint(s.cur.id)
		if s.TouchedOp == nil {
			s.TouchedOp = map[uintptr]string{}
		}
		s.TouchedOp[o] = op
	}
	if s.OnlyOnce {
		// first-use scenario: only package-level objects (data/bss segment, below the heap arena) and what happens
		// inside their Once.Do are scheduling points
		if !(o < 0xc000000000 || s.cur.inOnce > 0) {
			return
		}
	} else if s.Shared != nil && !s.Shared[o] {
		return
	}
	s.cur.lastObj, s.cur.lastOp = o, op
	s.yield()
}

func blockUntil(cond func() bool) {
	s := S
	if s == nil || s.cur == nil {
		if !cond() {
			panic("vsync: operation would block outside the scheduler")
		}
		return
	}
	for !cond() {
		me := s.cur
		me.blocked = func() bool { return !cond() }
		s.yield()
	}
}

// Run executes fns as cooperative threads until all are done (or deadlock / step limit).
func (s *Sched) Run(fns ...func()) {
	s.back = make(chan struct{})
	s.initial = len(fns)
	ResetChans()
	if s.MaxSteps == 0 {
		s.MaxSteps = 200000
	}
	for i, f := range fns {
		t := &thread{id: i, wake: make(chan struct{})}
		s.threads = append(s.threads, t)
		f := f
		go func() {
			<-t.wake
			f()
			t.done = true
			s.back <- struct{}{}
		}()
	}
	S = s
	defer func() { S = nil }()
	var cur *thread
	for {
		var en []*thread
		for _, t := range s.threads {
			if !t.done && (t.blocked == nil || !t.blocked()) {
				en = append(en, t)
			}
		}
		if len(en) == 0 {
			for _, t := range s.threads {
				if !t.done {
					if t.id < s.initial {
						s.Deadlock = true
					} else {
						s.Leaked++
					}
					if t.inSel {
						s.SelectLimit = true
					}
				}
			}
			return
		}
		s.Steps++
		if s.Steps > s.MaxSteps {
			s.Livelock = true
			return
		}
		curEnabled := false
		for _, t := range en {
			if t == cur {
				curEnabled = true
			}
		}
		// canonical order: the running thread first (if still enabled), then ascending ids
		order := make([]*thread, 0, len(en))
		if curEnabled {
			order = append(order, cur)
		}
		for _, t := range en {
			if !(curEnabled && t == cur) {
				order = append(order, t)
			}
		}
		k := 0
		if len(order) > 1 {
			var obj uintptr
			op := "start"
			if cur != nil {
				obj, op = cur.lastObj, cur.lastOp
			}
			k = s.choose("thread", len(order), curEnabled, obj, op)
		}
		cur = order[k]
		cur.blocked = nil
		s.cur = cur
		cur.wake <- struct{}{}
		<-s.back
	}
}

// ---------------------------------------------------------------- primitives

type Mutex struct{ locked bool }

func (m *Mutex) Lock() {
	point(unsafe.Pointer(m), "Mutex.Lock")
	blockUntil(func() bool { return !m.locked })
	m.locked = true
}

func (m *Mutex) Unlock() {
	point(unsafe.Pointer(m), "Mutex.Unlock")
	if !m.locked {
		panic("sync: unlock of unlocked mutex")
	}
	m.locked = false
}

func (m *Mutex) TryLock() bool {
	point(unsafe.Pointer(m), "Mutex.TryLock")
	if m.locked {
		return false
	}
	m.locked = true
	return true
}

type RWMutex struct {
	w       bool
	readers int
}

func (m *RWMutex) Lock() {
	point(unsafe.Pointer(m), "RWMutex.Lock")
	blockUntil(func() bool { return !m.w && m.readers == 0 })
	m.w = true
}

func (m *RWMutex) Unlock() {
	point(unsafe.Pointer(m), "RWMutex.Unlock")
	if !m.w {
		panic("sync: Unlock of unlocked RWMutex")
	}
	m.w = false
}

func (m *RWMutex) RLock() {
	point(unsafe.Pointer(m), "RWMutex.RLock")
	blockUntil(func() bool { return !m.w })
	m.readers++
}

func (m *RWMutex) RUnlock() {
	point(unsafe.Pointer(m), "RWMutex.RUnlock")
	if m.readers <= 0 {
		panic("sync: RUnlock of unlocked RWMutex")
	}
	m.readers--
}

func (m *RWMutex) TryLock() bool {
	point(unsafe.Pointer(m), "RWMutex.TryLock")
	if m.w || m.readers > 0 {
		return false
	}
	m.w = true
	return true
}

func (m *RWMutex) TryRLock() bool {
	point(unsafe.Pointer(m), "RWMutex.TryRLock")
	if m.w {
		return false
	}
	m.readers++
	return true
}

func (m *RWMutex) RLocker() Locker { return (*rlocker)(m) }

type rlocker RWMutex

func (r *rlocker) Lock()   { (*RWMutex)(r).RLock() }
func (r *rlocker) Unlock() { (*RWMutex)(r).RUnlock() }

type Once struct {
	done bool
	m    Mutex
}

func (o *Once) Do(f func()) {
	point(unsafe.Pointer(o), "Once.Do")
	if o.done {
		return
	}
	if s := S; s != nil && s.cur != nil && uintptr(unsafe.Pointer(o)) < 0xc000000000 {
		t := s.cur
		t.inOnce++
		defer func() { t.inOnce-- }()
	}
	o.m.Lock()
	defer o.m.Unlock()
	if !o.done {
		defer func() { o.done = true }()
		f()
	}
}

type WaitGroup struct{ n int }

func (w *WaitGroup) Add(d int) { point(unsafe.Pointer(w), "WaitGroup.Add"); w.n += d }
func (w *WaitGroup) Done()     { w.Add(-1) }
func (w *WaitGroup) Wait() {
	point(unsafe.Pointer(w), "WaitGroup.Wait")
	blockUntil(func() bool { return w.n <= 0 })
}

type Pool struct {
	New   func() any
	free  []any
	reg   bool
	owner string // function that used the pool first
}

func (p *Pool) register() {
	p.reg = true
	pools = append(pools, p)
	pc := make([]uintptr, 8)
	n := runtime.Callers(3, pc)
	fr := runtime.CallersFrames(pc[:n])
	for {
		f, more := fr.Next()
		if !strings.Contains(f.Function, "verif/shim/vsync") {
			p.owner = f.Function
			break
		}
		if !more {
			break
		}
	}
}

// PoolOwners lists the first user of every pool seen so far.
func PoolOwners() []string {
	var out []string
	for _, p := range pools {
		out = append(out, p.owner)
	}
	sort.Strings(out)
	return out
}

var pools []*Pool

// ResetPools empties every pool seen so far (executions must be independent).
func ResetPools() {
	for _, p := range pools {
		p.free = nil
	}
}

// PoolCount is the number of distinct pools the library used so far.
func PoolCount() int { return len(pools) }

func (p *Pool) Get() any {
	if !p.reg {
		p.register()
	}
	point(unsafe.Pointer(p), "Pool.Get")
	s := S
	n := len(p.free)
	if n > 0 {
		// default: most recently put (LIFO); alternatives: any older object, or a fresh one
		k := 0
		if s != nil && s.cur != nil && (s.Shared == nil || s.Shared[uintptr(unsafe.Pointer(p))]) {
			k = s.choose("pool", n+1, false, uintptr(unsafe.Pointer(p)), "Pool.Get")
		}
		if k < n {
			i := n - 1 - k
			x := p.free[i]
			p.free = append(p.free[:i], p.free[i+1:]...)
			if s == nil || !s.FreshPools || (s.FreshOwner != "" && !strings.HasPrefix(p.owner, s.FreshOwner)) {
				return x
			}
			// FreshPools: the same decision points are taken, but a new object is handed out (equally legal)
		}
	}
	if p.New != nil {
		return p.New()
	}
	return nil
}

func (p *Pool) Put(x any) {
	if !p.reg {
		p.register()
	}
	point(unsafe.Pointer(p), "Pool.Put")
	p.free = append(p.free, x)
	// the window after Put contains no synchronisation operation: make it schedulable
	point(unsafe.Pointer(p), "Pool.Put(after)")
}

// SharedObjects returns the objects touched by at least two threads in the execution.
func (s *Sched) SharedObjects() map[uintptr]bool {
	out := map[uintptr]bool{}
	for o, m := range s.Touched {
		if m&(m-1) != 0 {
			out[o] = true
		}
	}
	return out
}

// Describe renders the decisions taken (for replay artefacts).
func (s *Sched) Describe() []string {
	var out []string
	for i, p := range s.Points {
		if p.Taken != 0 {
			out = append(out, fmt.Sprintf("point %d (%s after %s): alternative %d of %d", i, p.Kind, p.Op, p.Taken, p.Arity))
		}
	}
	sort.Strings(out)
	return out
}

// ---------------------------------------------------------------- goroutines and channels
//
// A build overlay rewrites, in both modules, `go f(x)` into vsync.Go, channel sends/receives/closes/ranges into the
// generic helpers below and `select` into SelectReady + the *Now helpers, so that goroutines the library starts itself
// are threads of the same cooperative scheduler and every channel operation is a scheduling point that blocks in the
// scheduler (never in the Go runtime). Buffered channels keep their real buffer (only one thread runs at a time, so
// len/cap decide readiness); unbuffered channels hand values over through a side queue keyed by the channel.

// Spawned counts the threads started by the library itself (reset by Run).
func (s *Sched) SpawnedThreads() int { return s.spawned }

// Go starts fn as a new cooperative thread of the active scheduler.
func Go(fn func()) {
	s := S
	if s == nil || s.cur == nil {
		panic("vsync: the library started a goroutine outside the scheduler (harness must wrap library calls in vsync.Seq)")
	}
	t := &thread{id: len(s.threads), wake: make(chan struct{})}
	s.threads = append(s.threads, t)
	s.spawned++
	go func() {
		<-t.wake
		fn()
		t.done = true
		s.back <- struct{}{}
	}()
	pointAlways("go")
}

// Seq runs fn as the only initial thread of a default scheduler unless one is already active (set-up code).
func Seq(fn func()) (deadlock bool) {
	if S != nil {
		fn()
		return false
	}
	s := &Sched{}
	s.Run(fn)
	return s.Deadlock || s.Livelock
}

// pointAlways is a scheduling point that is never filtered by the shared-object reduction.
func pointAlways(op string) {
	s := S
	if s == nil || s.cur == nil {
		return
	}
	if s.OnlyOnce && s.cur.inOnce == 0 {
		return // first-use scenario: only what happens around package-level objects is a scheduling point
	}
	s.cur.lastObj, s.cur.lastOp = 0, op
	s.yield()
}

type chanWaiter struct {
	val   any
	taken bool
}

type chanState struct {
	closed bool
	sendq  []*chanWaiter
	recvw  int // receivers currently blocked (unbuffered)
}

var chans = map[uintptr]*chanState{}

func chanKey(c any) uintptr {
	type eface struct{ t, p unsafe.Pointer }
	return uintptr((*eface)(unsafe.Pointer(&c)).p)
}

func chanOf(c any) *chanState {
	k := chanKey(c)
	st := chans[k]
	if st == nil {
		st = &chanState{}
		chans[k] = st
	}
	return st
}

func active() bool { s := S; return s != nil && s.cur != nil }

func sendReady[T any](c chan<- T, st *chanState) bool {
	if c == nil {
		return false
	}
	if st.closed {
		return true // proceeds (and panics, as the real operation would)
	}
	if cap(c) > 0 {
		return len(c) < cap(c)
	}
	return st.recvw > 0
}

func recvReady[T any](c <-chan T, st *chanState) bool {
	if c == nil {
		return false
	}
	if cap(c) > 0 {
		return len(c) > 0 || st.closed
	}
	return len(st.sendq) > 0 || st.closed
}

// Send is `c <- v`.
func Send[T any](c chan<- T, v T) {
	if !active() {
		c <- v
		return
	}
	pointAlways("chan send")
	st := chanOf(c)
	if c == nil {
		blockUntil(func() bool { return false })
	}
	if cap(c) > 0 {
		blockUntil(func() bool { return st.closed || len(c) < cap(c) })
		c <- v // never blocks: one thread runs at a time (panics if closed, as it must)
		return
	}
	if st.closed {
		panic("send on closed channel")
	}
	w := &chanWaiter{val: v}
	st.sendq = append(st.sendq, w)
	blockUntil(func() bool { return w.taken || st.closed })
	if !w.taken {
		panic("send on closed channel")
	}
}

// Recv is `v, ok := <-c`.
func Recv[T any](c <-chan T) (T, bool) {
	if !active() {
		v, ok := <-c
		return v, ok
	}
	pointAlways("chan receive")
	return recvNow(c)
}

func recvNow[T any](c <-chan T) (T, bool) {
	var zero T
	st := chanOf(c)
	if c == nil {
		blockUntil(func() bool { return false })
	}
	if cap(c) > 0 {
		blockUntil(func() bool { return st.closed || len(c) > 0 })
		v, ok := <-c
		return v, ok
	}
	st.recvw++
	blockUntil(func() bool { return len(st.sendq) > 0 || st.closed })
	st.recvw--
	if len(st.sendq) > 0 {
		w := st.sendq[0]
		st.sendq = st.sendq[1:]
		w.taken = true
		return w.val.(T), true
	}
	return zero, false
}

// Recv1 is `<-c` used as a value.
func Recv1[T any](c <-chan T) T {
	v, _ := Recv(c)
	return v
}

// Close is close(c).
func Close[T any](c chan<- T) {
	if !active() {
		close(c)
		return
	}
	pointAlways("chan close")
	st := chanOf(c)
	if st.closed {
		panic("close of closed channel")
	}
	st.closed = true
	close(c)
}

// SelCase describes one communication clause of a select statement.
type SelCase struct {
	ready func() bool
}

func SelSend[T any](c chan<- T) SelCase {
	return SelCase{ready: func() bool { return sendReady(c, chanOf(c)) }}
}
func SelRecv[T any](c <-chan T) SelCase {
	return SelCase{ready: func() bool { return recvReady(c, chanOf(c)) }}
}

// SelectReady blocks until a case can proceed and returns its index; -1 selects the default clause. When several cases
// are ready the choice is a decision of the explorer (Go picks pseudo-randomly).
func SelectReady(hasDefault bool, cases ...SelCase) int {
	if !active() {
		panic("vsync: select outside the scheduler")
	}
	pointAlways("select")
	s := S
	for _, c := range cases {
		// a receiver parked in select counts as a waiting receiver for unbuffered senders only once it commits; sends to
		// unbuffered channels therefore become ready through plain receivers only (documented limitation)
		_ = c
	}
	var ready []int
	collect := func() bool {
		ready = ready[:0]
		for i, c := range cases {
			if c.ready() {
				ready = append(ready, i)
			}
		}
		return len(ready) > 0
	}
	if !collect() {
		if hasDefault {
			return -1
		}
		s.cur.inSel = true
		me := s.cur
		blockUntil(collect)
		me.inSel = false
	}
	k := 0
	if len(ready) > 1 {
		k = s.choose("select", len(ready), false, 0, "select")
	}
	return ready[k]
}

// RecvNow / SendNow perform an operation that SelectReady reported ready (no further scheduling point).
func RecvNow[T any](c <-chan T) (T, bool) { return recvNow(c) }
func SendNow[T any](c chan<- T, v T) {
	st := chanOf(c)
	if cap(c) > 0 || st.closed {
		if st.closed {
			panic("send on closed channel")
		}
		c <- v
		return
	}
	w := &chanWaiter{val: v}
	st.sendq = append(st.sendq, w)
	blockUntil(func() bool { return w.taken || st.closed })
	if !w.taken {
		panic("send on closed channel")
	}
}

// AtomicPoint is the scheduling point of an operation of verif/shim/vatomic.
func AtomicPoint(p unsafe.Pointer, op string) { point(p, op) }

// ResetChans forgets the channel side tables (executions must be independent).
func ResetChans() { chans = map[uintptr]*chanState{} }

// ---------------------------------------------------------------- the rest of package sync

type Cond struct {
	L       Locker
	waiting []*condWaiter
}

type condWaiter struct{ woken bool }

func NewCond(l Locker) *Cond { return &Cond{L: l} }

func (c *Cond) Wait() {
	point(unsafe.Pointer(c), "Cond.Wait")
	w := &condWaiter{}
	c.waiting = append(c.waiting, w)
	c.L.Unlock()
	blockUntil(func() bool { return w.woken })
	c.L.Lock()
}

func (c *Cond) Signal() {
	point(unsafe.Pointer(c), "Cond.Signal")
	if len(c.waiting) > 0 {
		c.waiting[0].woken = true
		c.waiting = c.waiting[1:]
	}
}

func (c *Cond) Broadcast() {
	point(unsafe.Pointer(c), "Cond.Broadcast")
	for _, w := range c.waiting {
		w.woken = true
	}
	c.waiting = nil
}

// Map keeps insertion order (Range order of sync.Map is unspecified; insertion order is one legal answer).
type Map struct {
	keys []any
	m    map[any]any
}

func (m *Map) Load(k any) (any, bool) {
	point(unsafe.Pointer(m), "Map.Load")
	v, ok := m.m[k]
	return v, ok
}

func (m *Map) Store(k, v any) {
	point(unsafe.Pointer(m), "Map.Store")
	m.store(k, v)
}

func (m *Map) store(k, v any) {
	if m.m == nil {
		m.m = map[any]any{}
	}
	if _, ok := m.m[k]; !ok {
		m.keys = append(m.keys, k)
	}
	m.m[k] = v
}

func (m *Map) LoadOrStore(k, v any) (any, bool) {
	point(unsafe.Pointer(m), "Map.LoadOrStore")
	if x, ok := m.m[k]; ok {
		return x, true
	}
	m.store(k, v)
	return v, false
}

func (m *Map) LoadAndDelete(k any) (any, bool) {
	point(unsafe.Pointer(m), "Map.LoadAndDelete")
	v, ok := m.m[k]
	m.del(k)
	return v, ok
}

func (m *Map) Delete(k any) {
	point(unsafe.Pointer(m), "Map.Delete")
	m.del(k)
}

func (m *Map) del(k any) {
	if _, ok := m.m[k]; !ok {
		return
	}
	delete(m.m, k)
	for i, x := range m.keys {
		if x == k {
			m.keys = append(m.keys[:i:i], m.keys[i+1:]...)
			break
		}
	}
}

func (m *Map) Swap(k, v any) (any, bool) {
	point(unsafe.Pointer(m), "Map.Swap")
	o, ok := m.m[k]
	m.store(k, v)
	return o, ok
}

func (m *Map) CompareAndSwap(k, old, new any) bool {
	point(unsafe.Pointer(m), "Map.CompareAndSwap")
	if x, ok := m.m[k]; ok && x == old {
		m.m[k] = new
		return true
	}
	return false
}

func (m *Map) CompareAndDelete(k, old any) bool {
	point(unsafe.Pointer(m), "Map.CompareAndDelete")
	if x, ok := m.m[k]; ok && x == old {
		m.del(k)
		return true
	}
	return false
}

func (m *Map) Range(f func(k, v any) bool) {
	point(unsafe.Pointer(m), "Map.Range")
	for _, k := range append([]any{}, m.keys...) {
		v, ok := m.m[k]
		if !ok {
			continue
		}
		if !f(k, v) {
			return
		}
	}
}

func (m *Map) Clear() {
	point(unsafe.Pointer(m), "Map.Clear")
	m.m, m.keys = nil, nil
}

func OnceFunc(f func()) func() {
	var o Once
	return func() { o.Do(f) }
}

func OnceValue[T any](f func() T) func() T {
	var o Once
	var v T
	return func() T { o.Do(func() { v = f() }); return v }
}

func OnceValues[T1, T2 any](f func() (T1, T2)) func() (T1, T2) {
	var o Once
	var v1 T1
	var v2 T2
	return func() (T1, T2) { o.Do(func() { v1, v2 = f() }); return v1, v2 }
}
