// Package vos is a drop-in for the parts of package os a library may use to reach the file system; every
// path-taking call is recorded before it is forwarded to the real os. It is linked in place of "os" into
// jsight-api-core and jsight-schema-core by a build overlay (never committed to the repository).
package vos

import (
	"io/fs"
	"os"
	"sync"
)

type Access struct {
	Op   string `json:"op"`
	Path string `json:"path"`
}

var (
	mu  sync.Mutex
	log []Access
	on  bool
)

// Start begins a fresh recording; Stop ends it and returns what was recorded.
func Start() { mu.Lock(); log, on = nil, true; mu.Unlock() }
func Stop() []Access {
	mu.Lock()
	defer mu.Unlock()
	on = false
	out := log
	log = nil
	return out
}

func rec(op, path string) {
	mu.Lock()
	if on {
		log = append(log, Access{op, path})
	}
	mu.Unlock()
}

type (
	FileInfo  = fs.FileInfo
	FileMode  = fs.FileMode
	File      = os.File
	DirEntry  = fs.DirEntry
	PathError = fs.PathError
)

var (
	ErrNotExist   = os.ErrNotExist
	ErrExist      = os.ErrExist
	ErrPermission = os.ErrPermission
	ErrInvalid    = os.ErrInvalid
	Stdout        = os.Stdout
	Stderr        = os.Stderr
	Stdin         = os.Stdin
	Args          = os.Args
)

const (
	O_RDONLY      = os.O_RDONLY
	O_WRONLY      = os.O_WRONLY
	O_RDWR        = os.O_RDWR
	O_CREATE      = os.O_CREATE
	O_TRUNC       = os.O_TRUNC
	O_APPEND      = os.O_APPEND
	PathSeparator = os.PathSeparator
)

func Stat(name string) (FileInfo, error)      { rec("stat", name); return os.Stat(name) }
func Lstat(name string) (FileInfo, error)     { rec("lstat", name); return os.Lstat(name) }
func ReadFile(name string) ([]byte, error)    { rec("readfile", name); return os.ReadFile(name) }
func Open(name string) (*File, error)         { rec("open", name); return os.Open(name) }
func ReadDir(name string) ([]DirEntry, error) { rec("readdir", name); return os.ReadDir(name) }
func Readlink(name string) (string, error)    { rec("readlink", name); return os.Readlink(name) }
func Create(name string) (*File, error)       { rec("create", name); return os.Create(name) }
func Remove(name string) error                { rec("remove", name); return os.Remove(name) }
func RemoveAll(name string) error             { rec("removeall", name); return os.RemoveAll(name) }
func Mkdir(name string, m FileMode) error     { rec("mkdir", name); return os.Mkdir(name, m) }
func MkdirAll(name string, m FileMode) error  { rec("mkdirall", name); return os.MkdirAll(name, m) }
func Chdir(name string) error                 { rec("chdir", name); return os.Chdir(name) }
func Rename(a, b string) error                { rec("rename", a); rec("rename", b); return os.Rename(a, b) }
func WriteFile(name string, d []byte, m FileMode) error {
	rec("writefile", name)
	return os.WriteFile(name, d, m)
}
func OpenFile(name string, flag int, m FileMode) (*File, error) {
	rec("openfile", name)
	return os.OpenFile(name, flag, m)
}
func DirFS(dir string) fs.FS            { rec("dirfs", dir); return os.DirFS(dir) }
func Getwd() (string, error)            { rec("getwd", ""); return os.Getwd() }
func Getenv(k string) string            { return os.Getenv(k) }
func LookupEnv(k string) (string, bool) { return os.LookupEnv(k) }
func IsNotExist(err error) bool         { return os.IsNotExist(err) }
func IsExist(err error) bool            { return os.IsExist(err) }
func IsPermission(err error) bool       { return os.IsPermission(err) }
func Exit(code int)                     { os.Exit(code) }
func TempDir() string                   { return os.TempDir() }
func UserHomeDir() (string, error)      { rec("userhomedir", ""); return os.UserHomeDir() }
func Getpid() int                       { return os.Getpid() }
func Hostname() (string, error)         { return os.Hostname() }
func Executable() (string, error)       { return os.Executable() }
func Environ() []string                 { return os.Environ() }
