// Package vmap owns the iteration order of every `for ... range <map>` of jsight-api-core and jsight-schema-core:
// a build overlay rewrites each such loop to iterate over vmap.Keys(m, site), which returns the keys in canonical
// (sorted) order permuted as the explorer chooses. Any order returned is an order the Go runtime may produce.
package vmap

import (
	"fmt"
	"sort"
)

// Hook is called for every executed map range with >= 2 keys; it returns a permutation of 0..n-1 (nil = identity).
var Hook func(site string, n int) []int

// Sites counts executions per site (all executions, also with < 2 keys).
var Sites = map[string]int{}

func Keys[M ~map[K]V, K comparable, V any](m M, site string) []K {
	keys := make([]K, 0, len(m))
	for k := range m {
		keys = append(keys, k)
	}
	Sites[site]++
	if len(keys) < 2 {
		return keys
	}
	strs := make([]string, len(keys))
	for i, k := range keys {
		strs[i] = fmt.Sprint(any(k))
	}
	idx := make([]int, len(keys))
	for i := range idx {
		idx[i] = i
	}
	sort.SliceStable(idx, func(a, b int) bool { return strs[idx[a]] < strs[idx[b]] })
	sorted := make([]K, len(keys))
	for i, j := range idx {
		sorted[i] = keys[j]
	}
	if Hook == nil {
		return sorted
	}
	perm := Hook(site, len(sorted))
	if perm == nil {
		return sorted
	}
	out := make([]K, len(sorted))
	for i, p := range perm {
		out[i] = sorted[p]
	}
	return out
}

// Perms returns the alternatives offered for n keys: all n! permutations when n <= 4 (identity first), otherwise the
// identity, the n-1 rotations and the reversal.
func Perms(n int) [][]int {
	id := make([]int, n)
	for i := range id {
		id[i] = i
	}
	if n <= 4 {
		var out [][]int
		var rec func(k int, p []int)
		rec = func(k int, p []int) {
			if k == n {
				out = append(out, append([]int{}, p...))
				return
			}
			for i := k; i < n; i++ {
				p[k], p[i] = p[i], p[k]
				rec(k+1, p)
				p[k], p[i] = p[i], p[k]
			}
		}
		rec(0, append([]int{}, id...))
		return out
	}
	out := [][]int{id}
	for r := 1; r < n; r++ {
		p := make([]int, n)
		for i := range p {
			p[i] = (i + r) % n
		}
		out = append(out, p)
	}
	rev := make([]int, n)
	for i := range rev {
		rev[i] = n - 1 - i
	}
	return append(out, rev)
}
