// Package vatomic is a drop-in for sync/atomic for code that runs under the cooperative scheduler of verif/shim/vsync:
// every operation is a scheduling point followed by the plain operation (only one thread runs at a time).
package vatomic

import (
	"unsafe"

	"verif/shim/vsync"
)

func pt(p unsafe.Pointer, op string) { vsync.AtomicPoint(p, op) }

func AddInt32(addr *int32, delta int32) int32 {
	pt(unsafe.Pointer(addr), "atomic.Add")
	*addr += delta
	return *addr
}
func LoadInt32(addr *int32) int32     { pt(unsafe.Pointer(addr), "atomic.Load"); return *addr }
func StoreInt32(addr *int32, v int32) { pt(unsafe.Pointer(addr), "atomic.Store"); *addr = v }
func SwapInt32(addr *int32, v int32) int32 {
	pt(unsafe.Pointer(addr), "atomic.Swap")
	o := *addr
	*addr = v
	return o
}
func CompareAndSwapInt32(addr *int32, old, new int32) bool {
	pt(unsafe.Pointer(addr), "atomic.CompareAndSwap")
	if *addr == old {
		*addr = new
		return true
	}
	return false
}

type Int32 struct{ v int32 }

func (x *Int32) Load() int32                        { return LoadInt32(&x.v) }
func (x *Int32) Store(v int32)                      { StoreInt32(&x.v, v) }
func (x *Int32) Swap(v int32) int32                 { return SwapInt32(&x.v, v) }
func (x *Int32) Add(d int32) int32                  { return AddInt32(&x.v, d) }
func (x *Int32) CompareAndSwap(old, new int32) bool { return CompareAndSwapInt32(&x.v, old, new) }

func AddInt64(addr *int64, delta int64) int64 {
	pt(unsafe.Pointer(addr), "atomic.Add")
	*addr += delta
	return *addr
}
func LoadInt64(addr *int64) int64     { pt(unsafe.Pointer(addr), "atomic.Load"); return *addr }
func StoreInt64(addr *int64, v int64) { pt(unsafe.Pointer(addr), "atomic.Store"); *addr = v }
func SwapInt64(addr *int64, v int64) int64 {
	pt(unsafe.Pointer(addr), "atomic.Swap")
	o := *addr
	*addr = v
	return o
}
func CompareAndSwapInt64(addr *int64, old, new int64) bool {
	pt(unsafe.Pointer(addr), "atomic.CompareAndSwap")
	if *addr == old {
		*addr = new
		return true
	}
	return false
}

type Int64 struct{ v int64 }

func (x *Int64) Load() int64                        { return LoadInt64(&x.v) }
func (x *Int64) Store(v int64)                      { StoreInt64(&x.v, v) }
func (x *Int64) Swap(v int64) int64                 { return SwapInt64(&x.v, v) }
func (x *Int64) Add(d int64) int64                  { return AddInt64(&x.v, d) }
func (x *Int64) CompareAndSwap(old, new int64) bool { return CompareAndSwapInt64(&x.v, old, new) }

func AddUint32(addr *uint32, delta uint32) uint32 {
	pt(unsafe.Pointer(addr), "atomic.Add")
	*addr += delta
	return *addr
}
func LoadUint32(addr *uint32) uint32     { pt(unsafe.Pointer(addr), "atomic.Load"); return *addr }
func StoreUint32(addr *uint32, v uint32) { pt(unsafe.Pointer(addr), "atomic.Store"); *addr = v }
func SwapUint32(addr *uint32, v uint32) uint32 {
	pt(unsafe.Pointer(addr), "atomic.Swap")
	o := *addr
	*addr = v
	return o
}
func CompareAndSwapUint32(addr *uint32, old, new uint32) bool {
	pt(unsafe.Pointer(addr), "atomic.CompareAndSwap")
	if *addr == old {
		*addr = new
		return true
	}
	return false
}

type Uint32 struct{ v uint32 }

func (x *Uint32) Load() uint32                        { return LoadUint32(&x.v) }
func (x *Uint32) Store(v uint32)                      { StoreUint32(&x.v, v) }
func (x *Uint32) Swap(v uint32) uint32                { return SwapUint32(&x.v, v) }
func (x *Uint32) Add(d uint32) uint32                 { return AddUint32(&x.v, d) }
func (x *Uint32) CompareAndSwap(old, new uint32) bool { return CompareAndSwapUint32(&x.v, old, new) }

func AddUint64(addr *uint64, delta uint64) uint64 {
	pt(unsafe.Pointer(addr), "atomic.Add")
	*addr += delta
	return *addr
}
func LoadUint64(addr *uint64) uint64     { pt(unsafe.Pointer(addr), "atomic.Load"); return *addr }
func StoreUint64(addr *uint64, v uint64) { pt(unsafe.Pointer(addr), "atomic.Store"); *addr = v }
func SwapUint64(addr *uint64, v uint64) uint64 {
	pt(unsafe.Pointer(addr), "atomic.Swap")
	o := *addr
	*addr = v
	return o
}
func CompareAndSwapUint64(addr *uint64, old, new uint64) bool {
	pt(unsafe.Pointer(addr), "atomic.CompareAndSwap")
	if *addr == old {
		*addr = new
		return true
	}
	return false
}

type Uint64 struct{ v uint64 }

func (x *Uint64) Load() uint64                        { return LoadUint64(&x.v) }
func (x *Uint64) Store(v uint64)                      { StoreUint64(&x.v, v) }
func (x *Uint64) Swap(v uint64) uint64                { return SwapUint64(&x.v, v) }
func (x *Uint64) Add(d uint64) uint64                 { return AddUint64(&x.v, d) }
func (x *Uint64) CompareAndSwap(old, new uint64) bool { return CompareAndSwapUint64(&x.v, old, new) }

func AddUintptr(addr *uintptr, delta uintptr) uintptr {
	pt(unsafe.Pointer(addr), "atomic.Add")
	*addr += delta
	return *addr
}
func LoadUintptr(addr *uintptr) uintptr     { pt(unsafe.Pointer(addr), "atomic.Load"); return *addr }
func StoreUintptr(addr *uintptr, v uintptr) { pt(unsafe.Pointer(addr), "atomic.Store"); *addr = v }
func SwapUintptr(addr *uintptr, v uintptr) uintptr {
	pt(unsafe.Pointer(addr), "atomic.Swap")
	o := *addr
	*addr = v
	return o
}
func CompareAndSwapUintptr(addr *uintptr, old, new uintptr) bool {
	pt(unsafe.Pointer(addr), "atomic.CompareAndSwap")
	if *addr == old {
		*addr = new
		return true
	}
	return false
}

type Uintptr struct{ v uintptr }

func (x *Uintptr) Load() uintptr                        { return LoadUintptr(&x.v) }
func (x *Uintptr) Store(v uintptr)                      { StoreUintptr(&x.v, v) }
func (x *Uintptr) Swap(v uintptr) uintptr               { return SwapUintptr(&x.v, v) }
func (x *Uintptr) Add(d uintptr) uintptr                { return AddUintptr(&x.v, d) }
func (x *Uintptr) CompareAndSwap(old, new uintptr) bool { return CompareAndSwapUintptr(&x.v, old, new) }

func LoadPointer(addr *unsafe.Pointer) unsafe.Pointer {
	pt(unsafe.Pointer(addr), "atomic.Load")
	return *addr
}
func StorePointer(addr *unsafe.Pointer, v unsafe.Pointer) {
	pt(unsafe.Pointer(addr), "atomic.Store")
	*addr = v
}
func SwapPointer(addr *unsafe.Pointer, v unsafe.Pointer) unsafe.Pointer {
	pt(unsafe.Pointer(addr), "atomic.Swap")
	o := *addr
	*addr = v
	return o
}
func CompareAndSwapPointer(addr *unsafe.Pointer, old, new unsafe.Pointer) bool {
	pt(unsafe.Pointer(addr), "atomic.CompareAndSwap")
	if *addr == old {
		*addr = new
		return true
	}
	return false
}

type Bool struct{ v bool }

func (x *Bool) Load() bool   { pt(unsafe.Pointer(x), "atomic.Load"); return x.v }
func (x *Bool) Store(v bool) { pt(unsafe.Pointer(x), "atomic.Store"); x.v = v }
func (x *Bool) Swap(v bool) bool {
	pt(unsafe.Pointer(x), "atomic.Swap")
	o := x.v
	x.v = v
	return o
}
func (x *Bool) CompareAndSwap(old, new bool) bool {
	pt(unsafe.Pointer(x), "atomic.CompareAndSwap")
	if x.v == old {
		x.v = new
		return true
	}
	return false
}

type Pointer[T any] struct{ p *T }

func (x *Pointer[T]) Load() *T   { pt(unsafe.Pointer(x), "atomic.Load"); return x.p }
func (x *Pointer[T]) Store(v *T) { pt(unsafe.Pointer(x), "atomic.Store"); x.p = v }
func (x *Pointer[T]) Swap(v *T) *T {
	pt(unsafe.Pointer(x), "atomic.Swap")
	o := x.p
	x.p = v
	return o
}
func (x *Pointer[T]) CompareAndSwap(old, new *T) bool {
	pt(unsafe.Pointer(x), "atomic.CompareAndSwap")
	if x.p == old {
		x.p = new
		return true
	}
	return false
}

type Value struct {
	v   any
	set bool
}

func (x *Value) Load() any { pt(unsafe.Pointer(x), "atomic.Load"); return x.v }
func (x *Value) Store(v any) {
	if v == nil {
		panic("sync/atomic: store of nil value into Value")
	}
	pt(unsafe.Pointer(x), "atomic.Store")
	x.v, x.set = v, true
}
func (x *Value) Swap(v any) any {
	if v == nil {
		panic("sync/atomic: swap of nil value into Value")
	}
	pt(unsafe.Pointer(x), "atomic.Swap")
	o := x.v
	x.v, x.set = v, true
	return o
}
func (x *Value) CompareAndSwap(old, new any) bool {
	if new == nil {
		panic("sync/atomic: compare and swap of nil value into Value")
	}
	pt(unsafe.Pointer(x), "atomic.CompareAndSwap")
	if x.v == old {
		x.v, x.set = new, true
		return true
	}
	return false
}
