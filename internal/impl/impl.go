// Package impl wraps the real jsight-api-core entry points and turns their results into plain observations.
package impl

import (
	"fmt"
	"os"
	"path/filepath"
	"runtime/debug"
	"strings"
	"syscall"

	"github.com/jsightapi/jsight-schema-core/fs"

	"github.com/jsightapi/jsight-api-core/core"
	"github.com/jsightapi/jsight-api-core/directive"
	"github.com/jsightapi/jsight-api-core/jerr"
	"github.com/jsightapi/jsight-api-core/kit"
	"github.com/jsightapi/jsight-api-core/scanner"
)

type ErrObs struct {
	Msg     string `json:"msg"`
	File    string `json:"file"`
	Index   uint   `json:"index"`
	Line    uint   `json:"line"`
	Col     uint   `json:"col"`
	Quote   string `json:"quote"`
	Full    string `json:"full"` // Error() incl. include trace
	FileLen int    `json:"file_len"`
	NilFile bool   `json:"nil_file,omitempty"`
}

func (e *ErrObs) Tuple() string {
	if e == nil {
		return "<nil>"
	}
	return fmt.Sprintf("%q|%s|%d|%d|%d|%q", e.Msg, e.File, e.Index, e.Line, e.Col, e.Full)
}

func FromJErr(je *jerr.JApiError) *ErrObs {
	if je == nil {
		return nil
	}
	o := &ErrObs{Msg: je.Msg, Index: uint(je.Index), Line: uint(je.Line), Col: uint(je.Column), Quote: je.Quote}
	if je.File != nil {
		o.File = je.File.Name()
		o.FileLen = je.File.Content().Len()
	} else {
		o.NilFile = true
	}
	o.Full = je.Error()
	return o
}

// Panic describes a recovered panic: value and innermost repository (or dependency) function.
type Panic struct {
	Value string `json:"value"`
	Func  string `json:"func"`
	Class string `json:"class"`
}

func (p *Panic) Key() string { return "panic:" + p.Class + "@" + p.Func }

func CatchPanic(r any) *Panic {
	if r == nil {
		return nil
	}
	st := string(debug.Stack())
	p := &Panic{Value: fmt.Sprint(r)}
	if len(p.Value) > 300 {
		p.Value = p.Value[:300]
	}
	p.Class = panicClass(p.Value)
	// find innermost frame in jsight code after the panic frame
	lines := strings.Split(st, "\n")
	seenPanic := false
	for _, l := range lines {
		if strings.HasPrefix(l, "panic(") {
			seenPanic = true
			continue
		}
		if !seenPanic {
			continue
		}
		if strings.HasPrefix(l, "github.com/jsightapi/") {
			f := strings.TrimSpace(l)
			if i := strings.LastIndex(f, "("); i > 0 {
				f = f[:i]
			}
			f = strings.TrimPrefix(f, "github.com/jsightapi/")
			p.Func = f
			break
		}
	}
	return p
}

func panicClass(v string) string {
	switch {
	case strings.Contains(v, "nil pointer dereference"):
		return "nil-deref"
	case strings.Contains(v, "index out of range"):
		return "index-out-of-range"
	case strings.Contains(v, "slice bounds out of range"):
		return "slice-bounds"
	case strings.Contains(v, "nil map"):
		return "nil-map"
	}
	// mask digits and quoted strings so that the class is stable
	var b strings.Builder
	inq := false
	for _, c := range v {
		if c == '"' || c == '\'' || c == '`' {
			inq = !inq
			b.WriteRune('"')
			continue
		}
		if inq {
			continue
		}
		if c >= '0' && c <= '9' {
			c = '#'
		}
		b.WriteRune(c)
	}
	s := b.String()
	if len(s) > 80 {
		s = s[:80]
	}
	return s
}

type Built struct {
	J     kit.JApi
	Err   *ErrObs
	Panic *Panic
}

func (b *Built) OK() bool { return b.Err == nil && b.Panic == nil }

func Banned(names []string) []core.Option {
	if len(names) == 0 {
		return nil
	}
	var ee []directive.Enumeration
	for _, n := range names {
		for i := directive.Jsight; i <= directive.OperationID; i++ {
			if i.String() == n {
				ee = append(ee, i)
			}
		}
	}
	return []core.Option{core.WithBannedDirectives(ee...)}
}

// BuildMem builds a single-file project from memory.
func BuildMem(name, content string, oo ...core.Option) (b *Built) {
	b = &Built{}
	defer func() {
		if r := recover(); r != nil {
			b.Panic = CatchPanic(r)
		}
	}()
	j, je := kit.NewJApiFromFile(fs.NewFile(name, content), oo...)
	b.J = j
	b.Err = FromJErr(je)
	return b
}

// BuildBytes builds a single-file project from a caller-owned byte slice (the library must not modify it).
func BuildBytes(name string, content []byte, oo ...core.Option) (b *Built) {
	b = &Built{}
	defer func() {
		if r := recover(); r != nil {
			b.Panic = CatchPanic(r)
		}
	}()
	j, je := kit.NewJApiFromFile(fs.NewFile(name, content), oo...)
	b.J = j
	b.Err = FromJErr(je)
	return b
}

// BuildDisk builds the project whose root file is at path.
func BuildDisk(path string, oo ...core.Option) (b *Built) {
	b = &Built{}
	defer func() {
		if r := recover(); r != nil {
			b.Panic = CatchPanic(r)
		}
	}()
	j, je := kit.NewJapi(path, oo...)
	b.J = j
	b.Err = FromJErr(je)
	return b
}

// Project is a set of files; Root names the root file.
type Project struct {
	Files map[string]string `json:"files"`
	Root  string            `json:"root"`
	Dirs  []string          `json:"dirs,omitempty"`
	// Fifos: named pipes to create (nobody ever writes to them: reading one blocks for ever)
	Fifos []string `json:"fifos,omitempty"`
}

func Single(content string) Project {
	return Project{Files: map[string]string{"root.jst": content}, Root: "root.jst"}
}

// Materialise writes the project under dir (which is emptied first) and returns the root path.
func (p Project) Materialise(dir string) string {
	os.RemoveAll(dir)
	os.MkdirAll(dir, 0o755)
	for _, d := range p.Dirs {
		os.MkdirAll(filepath.Join(dir, d), 0o755)
	}
	for n, c := range p.Files {
		fp := filepath.Join(dir, n)
		os.MkdirAll(filepath.Dir(fp), 0o755)
		os.WriteFile(fp, []byte(c), 0o644)
	}
	for _, n := range p.Fifos {
		syscall.Mkfifo(filepath.Join(dir, n), 0o644)
	}
	return filepath.Join(dir, p.Root)
}

// Build builds a project: in memory when it has one file, on disk under dir otherwise.
func (p Project) Build(dir string, oo ...core.Option) *Built {
	if len(p.Files) == 1 && len(p.Dirs) == 0 {
		return BuildMem(p.Root, p.Files[p.Root], oo...)
	}
	root := p.Materialise(dir)
	b := BuildDisk(root, oo...)
	if b.Err != nil {
		b.Err.File = relTo(dir, b.Err.File)
		b.Err.Full = strings.ReplaceAll(b.Err.Full, dir+"/", "")
		b.Err.Msg = strings.ReplaceAll(b.Err.Msg, dir+"/", "")
	}
	return b
}

func relTo(dir, p string) string {
	if r, err := filepath.Rel(dir, p); err == nil && !strings.HasPrefix(r, "..") {
		return r
	}
	return p
}

type Call struct {
	Out   string `json:"out"`
	Err   string `json:"err,omitempty"`
	Panic *Panic `json:"panic,omitempty"`
}

func (c Call) String() string {
	if c.Panic != nil {
		return "PANIC " + c.Panic.Value
	}
	if c.Err != "" {
		return "ERR " + c.Err
	}
	return c.Out
}

func call(f func() ([]byte, error)) (c Call) {
	defer func() {
		if r := recover(); r != nil {
			c.Panic = CatchPanic(r)
		}
	}()
	b, err := f()
	if err != nil {
		c.Err = err.Error()
	}
	c.Out = string(b)
	return c
}

func ToJson(j *kit.JApi) Call          { return call(j.ToJson) }
func ToJsonIndent(j *kit.JApi) Call    { return call(j.ToJsonIndent) }
func ToOpenAPI(j *kit.JApi) Call       { return call(j.ToOpenAPIJson) }
func ToOpenAPIIndent(j *kit.JApi) Call { return call(j.ToOpenAPIJsonIndent) }
func Title(j *kit.JApi) Call {
	return call(func() ([]byte, error) { return []byte(j.Title()), nil })
}

// Accessor by letter: J, I, O, P, T
func Access(j *kit.JApi, op byte) Call {
	switch op {
	case 'J':
		return ToJson(j)
	case 'I':
		return ToJsonIndent(j)
	case 'O':
		return ToOpenAPI(j)
	case 'P':
		return ToOpenAPIIndent(j)
	case 'T':
		return Title(j)
	}
	panic("bad op")
}

type Lex struct {
	Type  string `json:"t"`
	Begin int    `json:"b"`
	End   int    `json:"e"`
}

var lexNames = map[scanner.LexemeType]string{
	scanner.Keyword: "K", scanner.Parameter: "P", scanner.Annotation: "A", scanner.Schema: "S", scanner.Json: "J",
	scanner.Text: "T", scanner.ContextExplicitOpening: "(", scanner.ContextExplicitClosing: ")", scanner.Enum: "E",
}

type ScanObs struct {
	Lex   []Lex
	Err   *ErrObs
	Panic *Panic
	State string // VerifState() at the end (after error or EOF)
	Steps int
}

// Scan runs the raw scanner over content.
func Scan(content string, maxLex int) (o *ScanObs) {
	o = &ScanObs{}
	s := scanner.NewJApiScanner(fs.NewFile("root.jst", content))
	defer func() {
		if r := recover(); r != nil {
			o.Panic = CatchPanic(r)
		}
		func() {
			defer func() { recover() }()
			o.State = s.VerifState()
		}()
	}()
	for {
		lex, je := s.Next()
		if je != nil {
			o.Err = FromJErr(je)
			return o
		}
		if lex == nil {
			return o
		}
		o.Lex = append(o.Lex, Lex{lexNames[lex.Type()], int(lex.Begin()), int(lex.End())})
		if maxLex > 0 && len(o.Lex) > maxLex {
			o.Err = &ErrObs{Msg: "verif: too many lexemes"}
			return o
		}
	}
}
