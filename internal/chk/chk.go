// Package chk: check registry, evidence, known findings, verdict.
package chk

import (
	"bufio"
	"encoding/json"
	"fmt"
	"os"
	"path/filepath"
	"sort"
	"strings"
	"time"

	"verif/internal/run"
)

const Root = "/verif"

type Ctx struct {
	Prop  string
	Tier  string
	Seed  int64
	Pool  *run.Pool
	Start time.Time

	Level       string
	Cov         map[string]any
	Assumptions []string
	Violations  []run.Violation
	Incomplete  []string
	counts      map[string]int64
	samples     []any
	distinct    int
	evals       int64
}

func (c *Ctx) Quick() bool { return c.Tier != "thorough" }

// Pick returns q for the quick tier and t for the thorough tier.
func Pick[T any](c *Ctx, q, t T) T {
	if c.Quick() {
		return q
	}
	return t
}

type Check struct {
	ID    string
	Level string
	Run   func(c *Ctx)
}

var Registry = map[string]*Check{}

func Register(ch *Check) { Registry[ch.ID] = ch }

// Worker kinds
type WorkerFunc func(w *run.W)

var Workers = map[string]WorkerFunc{}

func RegisterWorker(kind string, f WorkerFunc) { Workers[kind] = f }

// Merge folds a worker-pool result into the context.
func (c *Ctx) Merge(r *run.Result, evalKey string) {
	for k, v := range r.Counts {
		c.counts[k] += v
	}
	c.evals += r.Counts[evalKey]
	c.distinct += r.Distinct
	if len(c.samples) < 6 {
		c.samples = append(c.samples, r.Samples...)
	}
	c.Violations = append(c.Violations, r.Violations...)
	c.Incomplete = append(c.Incomplete, r.Incomplete...)
	for _, cr := range r.Crashes {
		c.AddCrash(cr)
	}
}

// AddCrash turns a worker death into a violation of the running property (crash = C01-type failure for any check).
func (c *Ctx) AddCrash(cr run.Crash) {
	if cr.Class == "timeout" && cr.Repro < 2 {
		c.Incomplete = append(c.Incomplete, fmt.Sprintf("case %s timed out once but did not reproduce", cr.CaseID))
		return
	}
	key := cr.Class + ":" + cr.Stderr
	c.Violations = append(c.Violations, run.Violation{Prop: c.Prop, Key: key, What: "worker died: " + cr.Stderr,
		Kind: cr.Kind, Params: cr.Params, CaseID: cr.CaseID, Detail: map[string]any{"reproduced": cr.Repro}})
}

func (c *Ctx) Count(k string, n int64)  { c.counts[k] += n }
func (c *Ctx) Counts() map[string]int64 { return c.counts }
func (c *Ctx) AddEvals(n int64)         { c.evals += n }
func (c *Ctx) AddDistinct(n int)        { c.distinct += n }
func (c *Ctx) Sample(v any) {
	if len(c.samples) < 8 {
		c.samples = append(c.samples, v)
	}
}
func (c *Ctx) Violation(key, what, kind string, params any, caseID string, detail any) {
	pj, _ := json.Marshal(params)
	c.Violations = append(c.Violations, run.Violation{Prop: c.Prop, Key: key, What: what, Kind: kind, Params: pj, CaseID: caseID, Detail: detail})
}

type Finding struct {
	Property string `json:"property"`
	Status   string `json:"status"` // open | fixed
	Key      string `json:"key,omitempty"`
	What     string `json:"what"`
	Commit   string `json:"commit,omitempty"`
	Input    string `json:"first_seen_input,omitempty"`
}

func LoadFindings() []Finding {
	f, err := os.Open(filepath.Join(Root, "known_findings.jsonl"))
	if err != nil {
		return nil
	}
	defer f.Close()
	var out []Finding
	sc := bufio.NewScanner(f)
	sc.Buffer(make([]byte, 1<<20), 1<<20)
	for sc.Scan() {
		l := strings.TrimSpace(sc.Text())
		if l == "" || strings.HasPrefix(l, "#") {
			continue
		}
		var fd Finding
		if json.Unmarshal([]byte(l), &fd) == nil {
			out = append(out, fd)
		}
	}
	return out
}

// Finish writes evidence, prints verdict lines and returns the exit code.
func (c *Ctx) Finish() int {
	findings := LoadFindings()
	known := map[string]Finding{}
	for _, f := range findings {
		if f.Status == "open" && f.Property == c.Prop {
			known[f.Key] = f
		}
	}
	seenKnown := map[string]int{}
	var fresh []run.Violation
	for _, v := range c.Violations {
		if _, ok := known[v.Key]; ok && v.Prop == c.Prop {
			seenKnown[v.Key]++
			continue
		}
		fresh = append(fresh, v)
	}
	keys := make([]string, 0, len(seenKnown))
	for k := range seenKnown {
		keys = append(keys, k)
	}
	sort.Strings(keys)
	for _, k := range keys {
		fmt.Printf("KNOWN-FINDING: property=%s %s [key=%s; %d case(s) this run]\n", c.Prop, known[k].What, k, seenKnown[k])
	}
	// write replays for fresh violations (at most 10 files, grouped by key)
	perKey := map[string]int{}
	nfiles := 0
	rdir := filepath.Join(Root, "replays", "tmp", c.Prop)
	os.RemoveAll(rdir)
	for _, v := range fresh {
		perKey[v.Key]++
		if perKey[v.Key] > 2 || nfiles >= 10 {
			continue
		}
		os.MkdirAll(rdir, 0o755)
		nfiles++
		p := filepath.Join(rdir, fmt.Sprintf("%d.json", nfiles))
		b, _ := json.MarshalIndent(v, "", " ")
		os.WriteFile(p, b, 0o644)
		fmt.Printf("VIOLATION property=%s replay=%s\n", c.Prop, p)
		fmt.Printf("  key=%s\n  what=%s\n", v.Key, v.What)
	}
	if len(fresh) > nfiles {
		fmt.Printf("  (%d further violation(s) with %d distinct key(s) not written out)\n", len(fresh)-nfiles, len(perKey))
	}
	c.writeEvidence(len(fresh), seenKnown)
	for _, r := range c.Incomplete {
		fmt.Printf("note: %s\n", r)
	}
	if len(fresh) > 0 {
		return 1
	}
	return 0
}

func (c *Ctx) writeEvidence(nviol int, seenKnown map[string]int) {
	cov := map[string]any{}
	for k, v := range c.Cov {
		cov[k] = v
	}
	cov["counts"] = c.counts
	if _, ok := cov["evaluations"]; !ok {
		cov["evaluations"] = c.evals
	}
	if _, ok := cov["distinct_nontrivial"]; !ok {
		cov["distinct_nontrivial"] = c.distinct
	}
	if _, ok := cov["samples"]; !ok {
		s := c.samples
		if len(s) > 6 {
			s = s[:6]
		}
		cov["samples"] = s
	}
	if _, ok := cov["exhaustive"]; !ok {
		cov["exhaustive"] = len(c.Incomplete) == 0
	} else if len(c.Incomplete) > 0 {
		cov["exhaustive"] = false
	}
	if len(c.Incomplete) > 0 {
		cov["incomplete_reasons"] = c.Incomplete
	}
	if len(seenKnown) > 0 {
		cov["known_findings_seen"] = seenKnown
	}
	ev := map[string]any{
		"property_id": c.Prop, "tier": c.Tier, "seed": c.Seed, "level": c.Level, "coverage": cov,
		"assumptions": c.Assumptions, "wall_s": time.Since(c.Start).Seconds(), "violations": nviol,
	}
	if c.Assumptions == nil {
		ev["assumptions"] = []string{}
	}
	b, _ := json.MarshalIndent(ev, "", " ")
	os.MkdirAll(filepath.Join(Root, "evidence"), 0o755)
	os.WriteFile(filepath.Join(Root, "evidence", c.Prop+".json"), append(b, '\n'), 0o644)
}

func NewCtx(prop, tier string, seed int64) *Ctx {
	return &Ctx{Prop: prop, Tier: tier, Seed: seed, Start: time.Now(), Cov: map[string]any{}, counts: map[string]int64{},
		Pool: &run.Pool{MemKB: 6 << 20, TmpDir: scratch()}}
}

func scratch() string {
	d := "/dev/shm"
	if st, err := os.Stat(d); err != nil || !st.IsDir() {
		d = os.TempDir()
	}
	d = filepath.Join(d, fmt.Sprintf("verif-%d", os.Getpid()))
	os.MkdirAll(d, 0o755)
	return d
}

func (c *Ctx) Cleanup() {
	if c.Pool != nil && strings.Contains(c.Pool.TmpDir, "verif-") {
		os.RemoveAll(c.Pool.TmpDir)
	}
}
