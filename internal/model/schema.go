package model

import (
	"fmt"
	"strings"
)

// S is a JSight schema tree.
type S struct {
	K     string // obj arr int float str bool null ref or
	V     string // scalar literal (strings without quotes), "@T" for ref, "@T | @U" for or
	P     []Prop
	I     []*S
	Rules []Rule
	Note  string
}

type Prop struct {
	Key string
	S   *S
}

type Rule struct {
	Key string
	Val string // as written: true, 0, @E, "@T"
	Tok string // tokenType of the value in the catalog: boolean number reference string
}

func (r Rule) scalar() string { return strings.Trim(r.Val, `"`) }

func Obj(pp ...Prop) *S            { return &S{K: "obj", P: pp} }
func Arr(ii ...*S) *S              { return &S{K: "arr", I: ii} }
func Int(v string) *S              { return &S{K: "int", V: v} }
func Str(v string) *S              { return &S{K: "str", V: v} }
func Bool(v string) *S             { return &S{K: "bool", V: v} }
func Null() *S                     { return &S{K: "null", V: "null"} }
func Float(v string) *S            { return &S{K: "float", V: v} }
func Ref(t string) *S              { return &S{K: "ref", V: t} }
func Or(tt ...string) *S           { return &S{K: "or", V: strings.Join(tt, " | ")} }
func P(k string, s *S) Prop        { return Prop{k, s} }
func (s *S) R(k, v, tok string) *S { s.Rules = append(s.Rules, Rule{k, v, tok}); return s }
func (s *S) N(note string) *S      { s.Note = note; return s }
func (s *S) Optional() *S          { return s.R("optional", "true", "boolean") }
func (s *S) Min(v string) *S       { return s.R("min", v, "number") }
func (s *S) Enum(e string) *S      { return s.R("enum", e, "reference") }
func (s *S) AllOf(t string) *S     { return s.R("allOf", `"`+t+`"`, "reference") }

func (s *S) hasAnn() bool { return len(s.Rules) > 0 || s.Note != "" }

func (s *S) anyAnn() bool {
	if s.hasAnn() {
		return true
	}
	for _, p := range s.P {
		if p.S.anyAnn() {
			return true
		}
	}
	for _, i := range s.I {
		if i.anyAnn() {
			return true
		}
	}
	return false
}

func (s *S) lit() string {
	switch s.K {
	case "str":
		return `"` + s.V + `"`
	default:
		return s.V
	}
}

func (s *S) ann() string {
	if !s.hasAnn() {
		return ""
	}
	var b strings.Builder
	b.WriteString(" //")
	if len(s.Rules) > 0 {
		b.WriteString(" {")
		for i, r := range s.Rules {
			if i > 0 {
				b.WriteString(", ")
			}
			b.WriteString(r.Key + ": " + r.Val)
		}
		b.WriteString("}")
		if s.Note != "" {
			b.WriteString(" - " + s.Note)
		}
	} else {
		b.WriteString(" " + s.Note)
	}
	return b.String()
}

// Compact renders the schema on one line (only legal without annotations).
func (s *S) Compact() string {
	switch s.K {
	case "obj":
		var pp []string
		for _, p := range s.P {
			pp = append(pp, fmt.Sprintf("%q: %s", p.Key, p.S.Compact()))
		}
		return "{" + strings.Join(pp, ", ") + "}"
	case "arr":
		var ii []string
		for _, i := range s.I {
			ii = append(ii, i.Compact())
		}
		return "[" + strings.Join(ii, ", ") + "]"
	}
	return s.lit()
}

// Multi renders the schema over several lines with annotations.
func (s *S) Multi() []string {
	var out []string
	s.multi("", "", "", &out)
	return out
}

func (s *S) multi(ind, prefix, comma string, out *[]string) {
	switch s.K {
	case "obj", "arr":
		open, cl := "{", "}"
		n := len(s.P)
		if s.K == "arr" {
			open, cl = "[", "]"
			n = len(s.I)
		}
		if n == 0 && !s.hasAnn() {
			*out = append(*out, ind+prefix+open+cl+comma)
			return
		}
		*out = append(*out, ind+prefix+open+s.ann())
		for i := 0; i < n; i++ {
			c := ","
			if i == n-1 {
				c = ""
			}
			if s.K == "obj" {
				s.P[i].S.multi(ind+"  ", fmt.Sprintf("%q: ", s.P[i].Key), c, out)
			} else {
				s.I[i].multi(ind+"  ", "", c, out)
			}
		}
		*out = append(*out, ind+cl+comma)
	default:
		*out = append(*out, ind+prefix+s.lit()+comma+s.ann())
	}
}

// Renderings returns the alternative body renderings (canonical first).
func (s *S) Renderings() [][]string {
	m := s.Multi()
	if s.anyAnn() {
		return [][]string{m}
	}
	c := []string{s.Compact()}
	if len(m) == 1 {
		return [][]string{m}
	}
	return [][]string{m, c}
}

var tokType = map[string][2]string{
	"obj": {"object", "object"}, "arr": {"array", "array"}, "int": {"number", "integer"}, "float": {"number", "float"},
	"str": {"string", "string"}, "bool": {"boolean", "boolean"}, "null": {"null", "null"},
}

// Resolve maps a user type name to its schema (set by Doc.Expected while it builds the expected document): needed to
// expand allOf, whose inherited properties appear in the content with "inheritedFrom".
var Resolve func(name string) *S

// Content returns the expected JDoc "content" node.
func (s *S) Content(key *string, optional bool) *O {
	o := NewO(false)
	if s.Note != "" {
		o.Set("note", s.Note)
	}
	if key != nil {
		o.Set("key", *key)
	}
	switch s.K {
	case "ref":
		o.Set("tokenType", "reference").Set("type", s.V).Set("scalarValue", s.V)
	case "or":
		o.Set("tokenType", "reference").Set("type", "mixed").Set("scalarValue", s.V)
	default:
		tt := tokType[s.K]
		o.Set("tokenType", tt[0]).Set("type", tt[1])
	}
	for _, r := range s.Rules {
		if r.Key == "enum" {
			o.Set("type", "enum")
		}
		if r.Key == "optional" && r.Val == "true" {
			optional = true
		}
	}
	switch s.K {
	case "obj":
		kids := []any{}
		for _, r := range s.Rules {
			if r.Key == "allOf" && Resolve != nil {
				if parent := Resolve(r.scalar()); parent != nil && parent.K == "obj" {
					for _, p := range parent.P {
						k := p.Key
						c := p.S.Content(&k, false)
						c.Set("inheritedFrom", r.scalar())
						kids = append(kids, c)
					}
				}
			}
		}
		for _, p := range s.P {
			k := p.Key
			kids = append(kids, p.S.Content(&k, false))
		}
		o.Set("children", kids)
	case "arr":
		kids := []any{}
		for _, i := range s.I {
			kids = append(kids, i.Content(nil, true))
		}
		o.Set("children", kids)
	case "ref", "or":
	default:
		o.Set("scalarValue", s.V)
	}
	if len(s.Rules) > 0 {
		rr := []any{}
		for _, r := range s.Rules {
			rr = append(rr, NewO(false).Set("key", r.Key).Set("tokenType", r.Tok).Set("scalarValue", r.scalar()))
		}
		o.Set("rules", rr)
	}
	o.Set("optional", optional)
	return o
}

// Used collects directly used user types and enums.
func (s *S) Used(types, enums *[]string) {
	add := func(l *[]string, v string) {
		for _, x := range *l {
			if x == v {
				return
			}
		}
		*l = append(*l, v)
	}
	switch s.K {
	case "ref":
		add(types, s.V)
	case "or":
		for _, t := range strings.Split(s.V, " | ") {
			add(types, t)
		}
	}
	for _, r := range s.Rules {
		if r.Key == "enum" {
			add(enums, r.Val)
		}
		if r.Key == "allOf" {
			add(types, r.scalar())
			if Resolve != nil {
				if parent := Resolve(r.scalar()); parent != nil {
					for _, p := range parent.P {
						p.S.Used(types, enums) // what the inherited properties use is used here too
					}
				}
			}
		}
	}
	for _, p := range s.P {
		p.S.Used(types, enums)
	}
	for _, i := range s.I {
		i.Used(types, enums)
	}
}

// SchemaJSON is the expected {content, example, notation, usedUserTypes, usedUserEnums} object of a JSight schema.
func (s *S) SchemaJSON(withExample bool) *O {
	o := NewO(false)
	o.Set("content", s.Content(nil, false))
	if withExample {
		o.Set("example", AnyValue{})
	}
	o.Set("notation", "jsight")
	var tt, ee []string
	s.Used(&tt, &ee)
	if len(tt) > 0 {
		o.Set("usedUserTypes", StrSet(tt))
	}
	if len(ee) > 0 {
		// the pinned fixtures never carry usedUserEnums (the implementation does not emit it): optional, but if
		// present it must be exactly the set of enums the schema uses
		o.Set("usedUserEnums", OptStrSet(ee))
	}
	return o
}
