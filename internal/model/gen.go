package model

// Exhaustive small-scope enumeration of documents: every sequence of blocks drawn from small, colliding palettes
// whose total size (blocks + optional features) stays within a node budget, and whose references are closed.

type Palette struct {
	Infos   []*Info
	Servers []*Server
	Tags    []*Tag
	Types   []*Type
	Enums   []*Enum
	Methods []string
	Paths   []string
	Resps   []Resp
	Reqs    []*Req
	Queries []*Query
	RPCs    []*RPC
	Groups  []*Group
	Descs   []string
	Anns    []string
}

var (
	sObjA    = Obj(P("a", Int("1")))
	sObjRich = Obj(P("id", Int("1").Min("0").N("the\u00a0id")), P("name", Str("Tom").Optional()))
	sArr     = Arr(Int("1"), Str("s"))
	sNested  = Obj(P("k", Obj(P("m", Arr(Bool("true"), Null())))), P("f", Float("1.5")))
	sRefT1   = Obj(P("r", Ref("@T1")))
	sEnumE1  = Obj(P("e", Str("a").Enum("@E1")))
	sAllOf   = Obj(P("own", Bool("true"))).AllOf("@T1")
	sHdr     = Obj(P("X-A", Str("1")))
	sHdr2    = Obj(P("X-B", Str("2")))
)

func DefaultPalette() *Palette {
	return &Palette{
		Infos:   []*Info{{Title: "My API"}, {Title: "T", Version: "1.0", Desc: "Hello\n  world"}, {Desc: "only text"}},
		Servers: []*Server{{Name: "@prod", Ann: "Production\u00a0env", BaseURL: "https://x.y/"}, {Name: "@test", BaseURL: "http://t"}},
		Tags:    []*Tag{{Name: "@cats", Ann: "Cats *", Desc: "About cats"}, {Name: "@my_dogs"}},
		Types: []*Type{
			{Name: "@T1", Ann: "A  type", Body: Body{Kind: "schema", S: sObjRich}},
			{Name: "@T2", Body: Body{Kind: "regex", Re: "^a+$"}},
			{Name: "@T3", Body: Body{Kind: "schema", S: sRefT1}},
			{Name: "@T4", Body: Body{Kind: "any"}},
			{Name: "@T5", Body: Body{Kind: "schema", S: sEnumE1}},
			{Name: "@T6", Body: Body{Kind: "schema", S: Int("12").Min("1")}},
			{Name: "@T7", Ann: "derived", Body: Body{Kind: "schema", S: sAllOf}},
		},
		Enums:   []*Enum{{Name: "@E1", Ann: "* letters", Vals: []EnumVal{{V: Str("a"), Note: "first"}, {V: Str("b")}}}, {Name: "@E2", Vals: []EnumVal{{V: Int("1")}}}},
		Methods: []string{"GET", "POST"},
		Paths:   []string{"/a", "/a/{id}", "/a/{id}/b", "/c/{x}"},
		Resps: []Resp{
			{Code: "200", Body: Body{Kind: "schema", S: sObjA}},
			{Code: "404", Body: Body{Kind: "any"}},
			{Code: "200", Ann: "ok", Body: Body{Kind: "ref", T: "@T1"}},
			{Code: "201", Body: Body{Kind: "arr", T: "@T1"}},
			{Code: "500", Headers: sHdr2, Body: Body{Kind: "regex", Re: "abc"}},
			{Code: "204", Body: Body{Kind: "empty"}},
			{Code: "200", Body: Body{Kind: "schema", S: sNested}},
			{Code: "200", Body: Body{Kind: "schema", S: Obj(P("x", Int("2"))).AllOf("@T1")}},
		},
		Reqs: []*Req{
			{Body: Body{Kind: "schema", S: sArr}},
			{Headers: sHdr, Body: Body{Kind: "ref", T: "@T1"}},
			{Body: Body{Kind: "any"}},
		},
		Queries: []*Query{{S: sObjA}, {Example: "a=1", Format: "noFormat", S: sObjA}},
		RPCs: []*RPC{
			{Path: "/rpc", Methods: []RPCMethod{{Name: "foo", Ann: "the foo", Desc: "d", Params: sArr, Result: Obj(P("ok", Bool("true")))}}},
			{Path: "/a", Methods: []RPCMethod{{Name: "bar", Params: sObjA}, {Name: "baz", Tags: []string{"@cats"}, Result: sObjA}}},
		},
		Groups: []*Group{
			{Path: "/g", Tags: []string{"@cats"}, Methods: []*HTTP{
				{Method: "GET", Path: "/g", Tags: []string{"@my_dogs"}, Resps: []Resp{{Code: "200", Body: Body{Kind: "any"}}}},
				{Method: "POST", Path: "/g", Resps: []Resp{{Code: "201", Body: Body{Kind: "any"}}}}}},
			{Path: "/g2/{id}", Tags: []string{"@my_dogs", "@cats"}, Methods: []*HTTP{
				{Method: "DELETE", Path: "/g2/{id}", Ann: "drop", Resps: []Resp{{Code: "204", Body: Body{Kind: "empty"}}}}}},
		},
		Descs: []string{"gets", "line one\n  line two"},
		Anns:  []string{"get  it"},
	}
}

type genState struct {
	p       *Palette
	budget  int
	total   int
	blocks  []any
	hasInfo bool
	used    map[string]bool // names of servers/tags/types/enums, interaction ids, "piece:<prefix>:<name>"
	fn      func(*Doc)
	count   int
	max     int
}

// EnumDocs calls fn for every valid document within the node budget; returns the number generated. max>0 stops early.
func EnumDocs(p *Palette, budget int, max int, fn func(*Doc)) int {
	g := &genState{p: p, budget: budget, total: budget, used: map[string]bool{}, fn: fn, max: max}
	g.rec()
	return g.count
}

// Size is the number of nodes (blocks + optional features) the generator spent on this document.
func (d *Doc) Size() int { return d.size }

func (g *genState) emit() {
	d := &Doc{Blocks: append([]any{}, g.blocks...), size: g.total - g.budget}
	if !d.Closed() {
		return
	}
	g.count++
	g.fn(d)
}

// Closed: every referenced type, enum and tag is declared somewhere in the document.
func (d *Doc) Closed() bool {
	decl := map[string]bool{}
	for _, b := range d.Blocks {
		switch x := b.(type) {
		case *Type:
			decl[x.Name] = true
		case *Enum:
			decl[x.Name] = true
		case *Tag:
			decl["tag"+x.Name] = true
		}
	}
	ok := true
	var tt, ee []string
	chkS := func(s *S) {
		if s != nil {
			s.Used(&tt, &ee)
		}
	}
	chkB := func(b Body) {
		switch b.Kind {
		case "schema":
			chkS(b.S)
		case "ref", "arr":
			tt = append(tt, b.T)
		}
	}
	for _, b := range d.Blocks {
		switch x := b.(type) {
		case *Type:
			chkB(x.Body)
		case *HTTP:
			for _, t := range x.Tags {
				if !decl["tag"+t] {
					ok = false
				}
			}
			chkS(x.PathS)
			if x.Query != nil {
				chkS(x.Query.S)
			}
			if x.Req != nil {
				chkS(x.Req.Headers)
				chkB(x.Req.Body)
			}
			for _, r := range x.Resps {
				chkS(r.Headers)
				chkB(r.Body)
			}
		case *Group:
			for _, t := range x.Tags {
				if !decl["tag"+t] {
					ok = false
				}
			}
			for _, m := range x.Methods {
				for _, t := range m.Tags {
					if !decl["tag"+t] {
						ok = false
					}
				}
				for _, r := range m.Resps {
					chkB(r.Body)
				}
			}
		case *RPC:
			for _, m := range x.Methods {
				for _, t := range m.Tags {
					if !decl["tag"+t] {
						ok = false
					}
				}
				chkS(m.Params)
				chkS(m.Result)
			}
		}
	}
	for _, t := range tt {
		if !decl[t] {
			ok = false
		}
	}
	for _, e := range ee {
		if !decl[e] {
			ok = false
		}
	}
	return ok
}

func (g *genState) push(b any, cost int, keys []string, body func()) {
	if cost > g.budget {
		return
	}
	for _, k := range keys {
		if g.used[k] {
			return
		}
	}
	for _, k := range keys {
		g.used[k] = true
	}
	g.budget -= cost
	g.blocks = append(g.blocks, b)
	body()
	g.blocks = g.blocks[:len(g.blocks)-1]
	g.budget += cost
	for _, k := range keys {
		delete(g.used, k)
	}
}

func (g *genState) rec() {
	if g.max > 0 && g.count >= g.max {
		return
	}
	if len(g.blocks) > 0 {
		g.emit()
	}
	if g.budget <= 0 {
		return
	}
	p := g.p
	if !g.hasInfo {
		for _, i := range p.Infos {
			cost := 1
			if i.Version != "" {
				cost++
			}
			if i.Desc != "" && i.Title != "" {
				cost++
			}
			g.hasInfo = true
			g.push(i, cost, nil, g.rec)
			g.hasInfo = false
		}
	}
	for _, s := range p.Servers {
		g.push(s, 1, []string{s.Name}, g.rec)
	}
	for _, t := range p.Tags {
		g.push(t, 1, []string{t.Name}, g.rec)
	}
	for _, t := range p.Types {
		g.push(t, 1, []string{t.Name}, g.rec)
	}
	for _, e := range p.Enums {
		g.push(e, 1, []string{e.Name}, g.rec)
	}
	for _, r := range p.RPCs {
		keys := []string{"url:" + r.Path}
		for _, m := range r.Methods {
			keys = append(keys, "json-rpc-2.0 "+m.Name+" "+r.Path)
		}
		g.push(r, 1+len(r.Methods), keys, g.rec)
	}
	for _, gr := range p.Groups {
		keys := []string{"url:" + gr.Path}
		for _, m := range gr.Methods {
			keys = append(keys, "http "+m.Method+" "+m.Path)
		}
		g.push(gr, 1, keys, g.rec)
	}
	for _, path := range p.Paths {
		for _, m := range p.Methods {
			g.httpVariants(m, path)
		}
	}
}

// httpVariants enumerates the feature subsets of one HTTP interaction within the remaining budget.
func (g *genState) httpVariants(method, path string) {
	p := g.p
	id := "http " + method + " " + path
	if g.used[id] {
		return
	}
	// an RPC URL on the same path cannot coexist with HTTP methods grouped under the same URL; keep them apart
	if g.used["url:"+path] {
		return
	}
	base := &HTTP{Method: method, Path: path}
	var feats []func(h *HTTP) (cost int, keys []string, ok bool)
	// each feature slot: list of alternatives (first = absent)
	type alt func(h *HTTP) (int, []string)
	slots := [][]alt{}
	// annotation
	slots = append(slots, []alt{nil, func(h *HTTP) (int, []string) { h.Ann = p.Anns[0]; return 1, nil }})
	// description
	ds := []alt{nil}
	for _, d := range p.Descs {
		d := d
		ds = append(ds, func(h *HTTP) (int, []string) { h.Desc = d; return 1, nil })
	}
	slots = append(slots, ds)
	// tags
	slots = append(slots, []alt{nil,
		func(h *HTTP) (int, []string) { h.Tags = []string{"@cats"}; return 1, nil },
		func(h *HTTP) (int, []string) { h.Tags = []string{"@my_dogs", "@cats"}; return 1, nil }})
	// operation id
	slots = append(slots, []alt{nil, func(h *HTTP) (int, []string) {
		h.OpID = "op" + method + pathID(path)
		return 1, []string{"op:" + method + pathID(path)}
	}})
	// Path schema (defines every parameter of the path that is not yet defined elsewhere)
	if pp := pathParams(path); len(pp) > 0 {
		slots = append(slots, []alt{nil, func(h *HTTP) (int, []string) {
			o := Obj()
			var keys []string
			for i, q := range pp {
				keys = append(keys, "piece:"+q.prefix+":"+q.name)
				if i == 0 {
					o.P = append(o.P, P(q.name, Int("5").N("the "+q.name)))
				} else {
					o.P = append(o.P, P(q.name, Str("s")))
				}
			}
			h.PathS = o
			return 1, keys
		}, func(h *HTTP) (int, []string) {
			// the first parameter is restricted by a declared enum
			o := Obj()
			var keys []string
			for i, q := range pp {
				keys = append(keys, "piece:"+q.prefix+":"+q.name)
				if i == 0 {
					o.P = append(o.P, P(q.name, Str("a").Enum("@E1")))
				} else {
					o.P = append(o.P, P(q.name, Str("s")))
				}
			}
			h.PathS = o
			return 1, keys
		}})
	}
	qs := []alt{nil}
	for _, q := range p.Queries {
		q := q
		qs = append(qs, func(h *HTTP) (int, []string) { h.Query = q; return 1, nil })
	}
	slots = append(slots, qs)
	rq := []alt{nil}
	for _, r := range p.Reqs {
		r := r
		rq = append(rq, func(h *HTTP) (int, []string) { h.Req = r; return 1, nil })
	}
	slots = append(slots, rq)
	// responses: 0, 1 or 2 from the palette (ordered, repetition of a code allowed)
	rs := []alt{nil}
	for i := range p.Resps {
		i := i
		rs = append(rs, func(h *HTTP) (int, []string) { h.Resps = []Resp{p.Resps[i]}; return 1, nil })
	}
	for i := range p.Resps {
		for j := range p.Resps {
			if i == j {
				continue
			}
			i, j := i, j
			rs = append(rs, func(h *HTTP) (int, []string) { h.Resps = []Resp{p.Resps[i], p.Resps[j]}; return 2, nil })
		}
	}
	slots = append(slots, rs)
	_ = feats
	var rec func(si int, h HTTP, cost int, keys []string)
	rec = func(si int, h HTTP, cost int, keys []string) {
		if cost > g.budget {
			return
		}
		if si == len(slots) {
			hh := h
			g.push(&hh, cost, append([]string{id}, keys...), g.rec)
			return
		}
		for _, a := range slots[si] {
			h2 := h
			c2, k2 := cost, keys
			if a != nil {
				c, k := a(&h2)
				c2 += c
				k2 = append(append([]string{}, keys...), k...)
				dup := false
				for _, x := range k {
					if g.used[x] {
						dup = true
					}
				}
				if dup {
					continue
				}
			}
			rec(si+1, h2, c2, k2)
		}
	}
	rec(0, *base, 1, nil)
}

func pathID(p string) string {
	out := []byte{}
	for i := 0; i < len(p); i++ {
		c := p[i]
		if (c >= 'a' && c <= 'z') || (c >= 'A' && c <= 'Z') {
			out = append(out, c)
		}
	}
	return string(out)
}
