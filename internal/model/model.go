package model

import (
	"net/url"
	"regexp"
	"strings"

	"verif/internal/dt"
)

type Body struct {
	Kind string // schema ref arr regex any empty
	S    *S
	T    string // type name for ref / arr
	Re   string
}

type Info struct{ Title, Version, Desc string }
type Server struct{ Name, Ann, BaseURL string }
type Tag struct{ Name, Ann, Desc string }
type Type struct {
	Name, Ann string
	Body      Body
}
type EnumVal struct {
	V    *S // scalar
	Note string
}
type Enum struct {
	Name, Ann string
	Vals      []EnumVal
}
type Resp struct {
	Code, Ann string
	Headers   *S
	Body      Body
}
type Req struct {
	Headers *S
	Body    Body
}
type Query struct {
	Example, Format string
	S               *S
}
type HTTP struct {
	Method, Path, Ann, Desc string
	Tags                    []string
	OpID                    string
	PathS                   *S // body of a Path directive under the method (object whose keys are parameters of Path)
	Query                   *Query
	Req                     *Req
	Resps                   []Resp
}

// Group: a URL directive with its own Tags and path-less methods (always rendered grouped).
type Group struct {
	Path    string
	Tags    []string
	Methods []*HTTP // Path of each method must equal the group's path
}

type RPCMethod struct {
	Name, Ann, Desc string
	Tags            []string
	Params, Result  *S
}
type RPC struct {
	Path    string
	Methods []RPCMethod
}

// Doc: JSIGHT 0.3 followed by the blocks in order. Block types: *Info *Server *Tag *Type *Enum *HTTP *Group *RPC.
type Doc struct {
	Blocks []any
	size   int
}

// ---------------------------------------------------------------- tree

func descLines(d string) []string { return strings.Split(d, "\n") }

func schemaNode(kw string, s *S, id string) *dt.Node {
	return dt.N(kw).WithBody(dt.SchemaBody, s.Renderings()...).WithID(id)
}

// bodyNodes renders a body either inline on the owner directive or as a child Body directive.
func applyBody(owner *dt.Node, b Body, asChild bool, id string) {
	target := owner
	if asChild {
		target = dt.N("Body").WithID(id + ".body")
		owner.Add(target)
	}
	switch b.Kind {
	case "schema":
		target.WithBody(dt.SchemaBody, b.S.Renderings()...)
	case "ref":
		target.Params = append(target.Params, b.T)
	case "arr":
		target.Params = append(target.Params, "["+b.T+"]")
	case "regex":
		target.Params = append(target.Params, "regex")
		target.WithBody(dt.RegexBody, []string{"/" + b.Re + "/"})
	case "any", "empty":
		target.Params = append(target.Params, b.Kind)
	}
}

// Chooser supplies tree-level layout choices (same mechanism as text-level sites).
type Chooser interface {
	Choose(kind string, n int) int
}

// ToTree builds the directive forest of the document. Tree-level layout sites: URL grouping of consecutive
// methods on one path, inline body vs child Body directive.
func (d *Doc) ToTree(c Chooser) *dt.File {
	f := &dt.File{Name: "root.jst"}
	f.Nodes = append(f.Nodes, dt.N("JSIGHT", "0.3").WithID("jsight"))
	nHTTP := 0
	for i := 0; i < len(d.Blocks); i++ {
		switch b := d.Blocks[i].(type) {
		case *Info:
			n := dt.N("INFO").WithID("info")
			if b.Title != "" {
				n.Add(dt.N("Title", b.Title).WithID("info.title"))
			}
			if b.Version != "" {
				n.Add(dt.N("Version", b.Version).WithID("info.version"))
			}
			if b.Desc != "" {
				n.Add(dt.N("Description").WithBody(dt.TextBody, descLines(b.Desc)).WithID("info.desc"))
			}
			f.Nodes = append(f.Nodes, n)
		case *Server:
			n := dt.N("SERVER", b.Name).WithAnn(b.Ann).WithID("server:" + b.Name)
			n.Add(dt.N("BaseUrl", b.BaseURL).WithID("server:" + b.Name + ".baseurl"))
			f.Nodes = append(f.Nodes, n)
		case *Tag:
			n := dt.N("TAG", b.Name).WithAnn(b.Ann).WithID("tag:" + b.Name)
			if b.Desc != "" {
				n.Add(dt.N("Description").WithBody(dt.TextBody, descLines(b.Desc)).WithID("tag:" + b.Name + ".desc"))
			}
			f.Nodes = append(f.Nodes, n)
		case *Type:
			n := dt.N("TYPE", b.Name).WithAnn(b.Ann).WithID("type:" + b.Name)
			applyBody(n, b.Body, false, "")
			f.Nodes = append(f.Nodes, n)
		case *Enum:
			n := dt.N("ENUM", b.Name).WithAnn(b.Ann).WithID("enum:" + b.Name)
			n.WithBody(dt.EnumBody, enumLines(b.Vals))
			f.Nodes = append(f.Nodes, n)
		case *HTTP:
			// run of consecutive HTTP blocks on the same path
			j := i
			for j+1 < len(d.Blocks) {
				nb, ok := d.Blocks[j+1].(*HTTP)
				if !ok || nb.Path != b.Path {
					break
				}
				j++
			}
			grouped := c.Choose("group", 2) == 1
			var parent *dt.Node
			if grouped {
				parent = dt.N("URL", b.Path).WithID("url:" + b.Path)
				f.Nodes = append(f.Nodes, parent)
			}
			for k := i; k <= j; k++ {
				h := d.Blocks[k].(*HTTP)
				n := httpNode(h, grouped, c, nHTTP)
				nHTTP++
				if grouped {
					parent.Add(n)
				} else {
					f.Nodes = append(f.Nodes, n)
				}
			}
			i = j
		case *Group:
			u := dt.N("URL", b.Path).WithID("url:" + b.Path)
			if len(b.Tags) > 0 {
				u.Add(dt.N("Tags", b.Tags...).WithID("url:" + b.Path + ".tags"))
			}
			for _, h := range b.Methods {
				u.Add(httpNode(h, true, c, nHTTP))
				nHTTP++
			}
			f.Nodes = append(f.Nodes, u)
		case *RPC:
			u := dt.N("URL", b.Path).WithID("url:" + b.Path)
			// the Protocol directive may be written before or after the methods of its URL
			protoLast := c.Choose("rpcorder", 2) == 1
			if !protoLast {
				u.Add(dt.N("Protocol", "json-rpc-2.0").WithID("url:" + b.Path + ".protocol"))
			}
			for _, m := range b.Methods {
				id := "rpc:" + m.Name + " " + b.Path
				n := dt.N("Method", m.Name).WithAnn(m.Ann).WithID(id)
				if len(m.Tags) > 0 {
					n.Add(dt.N("Tags", m.Tags...).WithID(id + ".tags"))
				}
				if m.Desc != "" {
					n.Add(dt.N("Description").WithBody(dt.TextBody, descLines(m.Desc)).WithID(id + ".desc"))
				}
				if m.Params != nil {
					n.Add(schemaNode("Params", m.Params, id+".params"))
				}
				if m.Result != nil {
					n.Add(schemaNode("Result", m.Result, id+".result"))
				}
				u.Add(n)
			}
			if protoLast {
				u.Add(dt.N("Protocol", "json-rpc-2.0").WithID("url:" + b.Path + ".protocol"))
			}
			f.Nodes = append(f.Nodes, u)
		}
	}
	return f
}

func enumLines(vv []EnumVal) []string {
	out := []string{"["}
	for i, v := range vv {
		l := "  " + v.V.lit()
		if i < len(vv)-1 {
			l += ","
		}
		if v.Note != "" {
			l += " // " + v.Note
		}
		out = append(out, l)
	}
	return append(out, "]")
}

func httpNode(h *HTTP, grouped bool, c Chooser, seq int) *dt.Node {
	id := "http:" + h.Method + " " + h.Path
	var n *dt.Node
	if grouped {
		n = dt.N(h.Method)
	} else {
		n = dt.N(h.Method, h.Path)
	}
	n.WithAnn(h.Ann).WithID(id)
	if len(h.Tags) > 0 {
		n.Add(dt.N("Tags", h.Tags...).WithID(id + ".tags"))
	}
	if h.OpID != "" {
		n.Add(dt.N("OperationId", h.OpID).WithID(id + ".opid"))
	}
	if h.Desc != "" {
		n.Add(dt.N("Description").WithBody(dt.TextBody, descLines(h.Desc)).WithID(id + ".desc"))
	}
	if h.PathS != nil {
		n.Add(schemaNode("Path", h.PathS, id+".path"))
	}
	if h.Query != nil {
		q := schemaNode("Query", h.Query.S, id+".query")
		if h.Query.Format != "" {
			q.Params = append(q.Params, h.Query.Format)
		}
		if h.Query.Example != "" {
			q.Params = append(q.Params, h.Query.Example)
		}
		n.Add(q)
	}
	if h.Req != nil {
		r := dt.N("Request").WithID(id + ".request")
		asChild := h.Req.Headers != nil
		if !asChild {
			asChild = c.Choose("bodychild", 2) == 1
		}
		if h.Req.Headers != nil {
			r.Add(schemaNode("Headers", h.Req.Headers, id+".request.headers"))
		}
		applyBody(r, h.Req.Body, asChild, id+".request")
		n.Add(r)
	}
	for i, rs := range h.Resps {
		rid := id + ".resp" + string(rune('0'+i))
		r := dt.N(rs.Code).WithAnn(rs.Ann).WithID(rid)
		asChild := rs.Headers != nil
		if !asChild {
			asChild = c.Choose("bodychild", 2) == 1
		}
		if rs.Headers != nil {
			r.Add(schemaNode("Headers", rs.Headers, rid+".headers"))
		}
		applyBody(r, rs.Body, asChild, rid)
		n.Add(r)
	}
	return n
}

// ---------------------------------------------------------------- expected JDoc

// annotation: what the catalog keeps of an annotation — trimmed, runs of ASCII white space collapsed to one blank. Other
// Unicode space characters inside the text are content.
func annotation(s string) string { return asciiSpaces.ReplaceAllString(strings.TrimSpace(s), " ") }

var asciiSpaces = regexp.MustCompile(`[\t\n\f\r ]+`)

func bodyJSON(b Body, example bool) (format string, schema *O) {
	switch b.Kind {
	case "schema":
		return "json", b.S.SchemaJSON(example)
	case "ref":
		return "json", Ref(b.T).SchemaJSON(example)
	case "arr":
		return "json", Arr(Ref(b.T)).SchemaJSON(example)
	case "regex":
		return "plainString", NewO(false).Set("content", b.Re).Set("example", AnyValue{}).Set("notation", "regex")
	default:
		return "binary", NewO(false).Set("notation", b.Kind)
	}
}

func pathTagTitle(path string) string {
	for _, seg := range strings.Split(path, "/") {
		if seg != "" && seg != "." {
			return "/" + seg
		}
	}
	return "/"
}

func pathTagName(title string) string {
	if title == "/" {
		return "@_"
	}
	t := strings.Replace(title, "/", "@", 1)
	t = strings.ReplaceAll(t, "_", "__")
	t = url.PathEscape(t)
	return strings.ReplaceAll(t, "%", "_")
}

type pathParam struct{ prefix, name string }

func pathParams(path string) []pathParam {
	var segs []string
	for _, s := range strings.Split(strings.Trim(path, "/"), "/") {
		if s != "" {
			segs = append(segs, s)
		}
	}
	var out []pathParam
	for i, s := range segs {
		if len(s) >= 2 && s[0] == '{' && s[len(s)-1] == '}' {
			out = append(out, pathParam{strings.Join(segs[:i+1], "/"), s[1 : len(s)-1]})
		}
	}
	return out
}

// Expected builds the JDoc Exchange document the model must serialise to.
func (d *Doc) Expected() *O {
	typeSchemas := map[string]*S{}
	for _, b := range d.Blocks {
		if t, ok := b.(*Type); ok && t.Body.Kind == "schema" {
			typeSchemas[t.Name] = t.Body.S
		}
	}
	Resolve = func(n string) *S { return typeSchemas[n] }
	defer func() { Resolve = nil }()
	root := NewO(false)
	tags := NewO(true)
	servers := NewO(true)
	types := NewO(true)
	enums := NewO(true)
	inter := NewO(true)
	var info *O

	type tagAcc struct {
		o    *O
		http []any
		rpc  []any
	}
	tagMap := map[string]*tagAcc{}
	var tagOrder []string
	addTag := func(name, title string, desc string) {
		o := NewO(false).Set("name", name).Set("title", title)
		if desc != "" {
			o.Set("description", desc)
		}
		tagMap[name] = &tagAcc{o: o}
		tagOrder = append(tagOrder, name)
	}
	// declared tags first
	for _, b := range d.Blocks {
		if t, ok := b.(*Tag); ok {
			title := annotation(t.Ann)
			if title == "" {
				title = t.Name
			}
			addTag(t.Name, title, t.Desc)
		}
	}
	// path variable pieces: (prefix, name) -> property schema
	pieces := map[pathParam]*S{}
	// groups contribute their methods; a method without own Tags takes the group's
	type flatHTTP struct {
		h        *HTTP
		fallback []string
	}
	var blocks []any
	for _, b := range d.Blocks {
		if g, ok := b.(*Group); ok {
			for _, h := range g.Methods {
				blocks = append(blocks, flatHTTP{h, g.Tags})
			}
			continue
		}
		blocks = append(blocks, b)
	}
	for _, b := range blocks {
		if fh, ok := b.(flatHTTP); ok {
			b = fh.h
		}
		if h, ok := b.(*HTTP); ok && h.PathS != nil {
			for _, pp := range pathParams(h.Path) {
				for _, p := range h.PathS.P {
					if p.Key == pp.name {
						pieces[pp] = p.S
					}
				}
			}
		}
	}
	useTags := func(own []string, path, id, proto string) []any {
		var names []string
		if len(own) > 0 {
			names = own
		} else {
			title := pathTagTitle(path)
			name := pathTagName(title)
			if _, ok := tagMap[name]; !ok {
				addTag(name, title, "")
			}
			names = []string{name}
		}
		var out []any
		for _, n := range names {
			out = append(out, n)
			ta := tagMap[n]
			if ta == nil {
				continue
			}
			if proto == "http" {
				ta.http = append(ta.http, id)
			} else {
				ta.rpc = append(ta.rpc, id)
			}
		}
		return out
	}
	for _, b := range blocks {
		var fallback []string
		if fh, ok := b.(flatHTTP); ok {
			b, fallback = fh.h, fh.fallback
		}
		switch x := b.(type) {
		case *Info:
			info = NewO(false)
			if x.Title != "" {
				info.Set("title", x.Title)
			}
			if x.Version != "" {
				info.Set("version", x.Version)
			}
			if x.Desc != "" {
				info.Set("description", x.Desc)
			}
		case *Server:
			o := NewO(false)
			if a := annotation(x.Ann); a != "" {
				o.Set("annotation", a)
			}
			o.Set("baseUrl", x.BaseURL)
			servers.Set(x.Name, o)
		case *Type:
			o := NewO(false)
			if a := annotation(x.Ann); a != "" {
				o.Set("annotation", a)
			}
			_, s := bodyJSON(x.Body, true)
			o.Set("schema", s)
			types.Set(x.Name, o)
		case *Enum:
			o := NewO(false).Set("annotation", annotation(x.Ann)).Set("description", "")
			kids := []any{}
			for _, v := range x.Vals {
				k := NewO(false).Set("tokenType", tokType[v.V.K][0])
				if v.Note != "" {
					k.Set("note", v.Note)
				}
				k.Set("scalarValue", v.V.V)
				kids = append(kids, k)
			}
			o.Set("value", NewO(false).Set("tokenType", "array").Set("children", kids))
			enums.Set(x.Name, o)
		case *HTTP:
			id := "http " + x.Method + " " + x.Path
			o := NewO(false).Set("id", id).Set("protocol", "http").Set("httpMethod", x.Method).Set("path", x.Path)
			if pp := pathParams(x.Path); len(pp) > 0 {
				obj := Obj()
				for _, p := range pp {
					if s, ok := pieces[p]; ok {
						obj.P = append(obj.P, P(p.name, s))
					} else {
						obj.P = append(obj.P, P(p.name, &S{K: "placeholder"}))
					}
				}
				o.Set("pathVariables", NewO(false).Set("schema", pathVarsJSON(obj)))
			}
			own := x.Tags
			if len(own) == 0 {
				own = fallback
			}
			o.Set("tags", useTags(own, x.Path, id, "http"))
			if a := annotation(x.Ann); a != "" {
				o.Set("annotation", a)
			}
			if x.Desc != "" {
				o.Set("description", x.Desc)
			}
			if x.Query != nil {
				q := NewO(false)
				if x.Query.Example != "" {
					q.Set("example", x.Query.Example)
				}
				f := x.Query.Format
				if f == "" {
					f = "htmlFormEncoded"
				}
				q.Set("format", f).Set("schema", x.Query.S.SchemaJSON(true))
				o.Set("query", q)
			}
			if x.Req != nil {
				r := NewO(false)
				if x.Req.Headers != nil {
					r.Set("headers", NewO(false).Set("schema", x.Req.Headers.SchemaJSON(true)))
				}
				f, s := bodyJSON(x.Req.Body, true)
				r.Set("body", NewO(false).Set("format", f).Set("schema", s))
				o.Set("request", r)
			}
			if len(x.Resps) > 0 {
				rr := []any{}
				for _, rs := range x.Resps {
					r := NewO(false).Set("code", rs.Code)
					if a := annotation(rs.Ann); a != "" {
						r.Set("annotation", a)
					}
					if rs.Headers != nil {
						r.Set("headers", NewO(false).Set("schema", rs.Headers.SchemaJSON(true)))
					}
					f, s := bodyJSON(rs.Body, true)
					r.Set("body", NewO(false).Set("format", f).Set("schema", s))
					rr = append(rr, r)
				}
				o.Set("responses", rr)
			}
			inter.Set(id, o)
		case *RPC:
			for _, m := range x.Methods {
				id := "json-rpc-2.0 " + m.Name + " " + x.Path
				o := NewO(false).Set("id", id).Set("protocol", "json-rpc-2.0").Set("path", x.Path).Set("method", m.Name)
				o.Set("tags", useTags(m.Tags, x.Path, id, "rpc"))
				if a := annotation(m.Ann); a != "" {
					o.Set("annotation", a)
				}
				if m.Desc != "" {
					o.Set("description", m.Desc)
				}
				if m.Params != nil {
					o.Set("params", NewO(false).Set("schema", m.Params.SchemaJSON(true)))
				}
				if m.Result != nil {
					o.Set("result", NewO(false).Set("schema", m.Result.SchemaJSON(true)))
				}
				inter.Set(id, o)
			}
		}
	}
	for _, n := range tagOrder {
		ta := tagMap[n]
		groups := []any{}
		if len(ta.http) > 0 {
			groups = append(groups, NewO(false).Set("protocol", "http").Set("interactions", ta.http))
		}
		if len(ta.rpc) > 0 {
			groups = append(groups, NewO(false).Set("protocol", "json-rpc-2.0").Set("interactions", ta.rpc))
		}
		ta.o.Set("interactionGroups", groups)
		tags.Set(n, ta.o)
	}
	root.Set("tags", tags)
	if info != nil {
		root.Set("info", info)
	}
	if len(servers.Keys) > 0 {
		root.Set("servers", servers)
	}
	if len(types.Keys) > 0 {
		root.Set("userTypes", types)
	}
	if len(enums.Keys) > 0 {
		root.Set("userEnums", enums)
	}
	root.Set("interactions", inter)
	root.Set("jsight", "0.3").Set("jdocExchangeVersion", "2.0.0")
	return root
}

func pathVarsJSON(obj *S) *O {
	o := NewO(false)
	content := NewO(false).Set("tokenType", "object").Set("type", "object")
	kids := []any{}
	for _, p := range obj.P {
		k := p.Key
		if p.S.K == "placeholder" {
			kids = append(kids, NewO(false).Set("key", k).Set("tokenType", "string").Set("type", "any").Set("optional", false).Set("scalarValue", AnyValue{Optional: true}).Set("rules", AnyValue{Optional: true}))
			continue
		}
		kids = append(kids, p.S.Content(&k, false))
	}
	content.Set("children", kids).Set("optional", false)
	o.Set("content", content).Set("notation", "jsight")
	var tt, ee []string
	for _, p := range obj.P {
		if p.S.K != "placeholder" {
			p.S.Used(&tt, &ee)
		}
	}
	if len(tt) > 0 {
		o.Set("usedUserTypes", StrSet(tt))
	}
	if len(ee) > 0 {
		o.Set("usedUserEnums", OptStrSet(ee))
	}
	return o
}
