// Package model: the abstract API document model, its directive-tree form and the JDoc JSON it must produce.
package model

import "verif/internal/oj"

type (
	O         = oj.O
	AnyValue  = oj.AnyValue
	StrSet    = oj.StrSet
	OptStrSet = oj.OptStrSet
)

var (
	NewO         = oj.NewO
	ParseOrdered = oj.ParseOrdered
	Diff         = oj.Diff
	Get          = oj.Get
)
