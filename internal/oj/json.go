// Package oj: order-preserving JSON values and structural comparison.
package oj

import (
	"bytes"
	"encoding/json"
	"fmt"
	"sort"
	"strings"
)

// O is a JSON object with key order. Ordered says whether key order is significant when comparing.
type O struct {
	Keys    []string
	Vals    map[string]any
	Ordered bool
}

func NewO(ordered bool) *O { return &O{Vals: map[string]any{}, Ordered: ordered} }

func (o *O) Set(k string, v any) *O {
	if _, ok := o.Vals[k]; !ok {
		o.Keys = append(o.Keys, k)
	}
	o.Vals[k] = v
	return o
}

// AnyValue matches any JSON value; Optional: the key may also be absent.
type AnyValue struct{ Optional bool }

// StrSet matches an array of strings as a set.
type StrSet []string

// OptStrSet: like StrSet, but the key may be absent altogether.
type OptStrSet []string

// ParseOrdered parses JSON keeping object key order.
func ParseOrdered(b []byte) (any, error) {
	dec := json.NewDecoder(bytes.NewReader(b))
	dec.UseNumber()
	v, err := parseValue(dec)
	if err != nil {
		return nil, err
	}
	if _, err := dec.Token(); err == nil {
		return nil, fmt.Errorf("trailing data after JSON value")
	}
	return v, nil
}

func parseValue(dec *json.Decoder) (any, error) {
	t, err := dec.Token()
	if err != nil {
		return nil, err
	}
	switch d := t.(type) {
	case json.Delim:
		switch d {
		case '{':
			o := NewO(true)
			for dec.More() {
				kt, err := dec.Token()
				if err != nil {
					return nil, err
				}
				k := kt.(string)
				v, err := parseValue(dec)
				if err != nil {
					return nil, err
				}
				if _, dup := o.Vals[k]; dup {
					return nil, fmt.Errorf("duplicate key %q", k)
				}
				o.Set(k, v)
			}
			if _, err := dec.Token(); err != nil {
				return nil, err
			}
			return o, nil
		case '[':
			arr := []any{}
			for dec.More() {
				v, err := parseValue(dec)
				if err != nil {
					return nil, err
				}
				arr = append(arr, v)
			}
			if _, err := dec.Token(); err != nil {
				return nil, err
			}
			return arr, nil
		}
		return nil, fmt.Errorf("unexpected delimiter %v", d)
	case json.Number:
		return string(d), nil
	default:
		return t, nil
	}
}

// Diff returns "" when act matches exp, else the JSON pointer and description of the first difference.
func Diff(exp, act any, path string) string {
	switch e := exp.(type) {
	case AnyValue:
		return ""
	case OptStrSet:
		return Diff(StrSet(e), act, path)
	case StrSet:
		a, ok := act.([]any)
		if !ok {
			return fmt.Sprintf("%s: expected array (set) %v, got %s", path, []string(e), show(act))
		}
		var as []string
		for _, x := range a {
			s, ok := x.(string)
			if !ok {
				return fmt.Sprintf("%s: non-string in set", path)
			}
			as = append(as, s)
		}
		es := append([]string{}, e...)
		sort.Strings(as)
		sort.Strings(es)
		if strings.Join(as, "\x00") != strings.Join(es, "\x00") {
			return fmt.Sprintf("%s: expected set %v, got %v", path, es, as)
		}
		return ""
	case *O:
		a, ok := act.(*O)
		if !ok {
			return fmt.Sprintf("%s: expected object, got %s", path, show(act))
		}
		// keys
		var ekeys []string
		for _, k := range e.Keys {
			if av, isAny := e.Vals[k].(AnyValue); isAny && av.Optional {
				if _, present := a.Vals[k]; !present {
					continue
				}
			}
			if _, isOpt := e.Vals[k].(OptStrSet); isOpt {
				if _, present := a.Vals[k]; !present {
					continue
				}
			}
			ekeys = append(ekeys, k)
		}
		for _, k := range ekeys {
			if _, ok := a.Vals[k]; !ok {
				return fmt.Sprintf("%s: missing key %q (has %v)", path, k, a.Keys)
			}
		}
		for _, k := range a.Keys {
			if _, ok := e.Vals[k]; !ok {
				return fmt.Sprintf("%s: unexpected key %q", path, k)
			}
		}
		if e.Ordered {
			if strings.Join(ekeys, "\x00") != strings.Join(a.Keys, "\x00") {
				return fmt.Sprintf("%s: key order differs: expected %v, got %v", path, ekeys, a.Keys)
			}
		}
		for _, k := range ekeys {
			if d := Diff(e.Vals[k], a.Vals[k], path+"/"+k); d != "" {
				return d
			}
		}
		return ""
	case []any:
		a, ok := act.([]any)
		if !ok {
			return fmt.Sprintf("%s: expected array, got %s", path, show(act))
		}
		if len(a) != len(e) {
			return fmt.Sprintf("%s: expected %d elements, got %d", path, len(e), len(a))
		}
		for i := range e {
			if d := Diff(e[i], a[i], fmt.Sprintf("%s/%d", path, i)); d != "" {
				return d
			}
		}
		return ""
	default:
		if fmt.Sprint(exp) != fmt.Sprint(act) || (exp == nil) != (act == nil) {
			return fmt.Sprintf("%s: expected %s, got %s", path, show(exp), show(act))
		}
		if _, isO := act.(*O); isO {
			return fmt.Sprintf("%s: expected scalar %s, got object", path, show(exp))
		}
		if _, isA := act.([]any); isA {
			return fmt.Sprintf("%s: expected scalar %s, got array", path, show(exp))
		}
		return ""
	}
}

func show(v any) string {
	switch x := v.(type) {
	case *O:
		return fmt.Sprintf("object%v", x.Keys)
	case []any:
		return fmt.Sprintf("array[%d]", len(x))
	case string:
		return fmt.Sprintf("%q", x)
	case nil:
		return "null"
	}
	return fmt.Sprint(v)
}

// Get walks keys.
func Get(v any, keys ...string) any {
	for _, k := range keys {
		o, ok := v.(*O)
		if !ok {
			return nil
		}
		v = o.Vals[k]
	}
	return v
}
