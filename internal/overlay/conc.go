package overlay

import (
	"bytes"
	"encoding/json"
	"fmt"
	"go/ast"
	"go/parser"
	"go/printer"
	"go/token"
	"go/types"
	"os"
	"strings"

	"golang.org/x/tools/go/ast/astutil"
	"golang.org/x/tools/go/packages"
)

// ConcInfo describes what the goroutine/channel rewrite found in the library sources.
type ConcInfo struct {
	Sites       []string // rewritten constructs (kind@file:line)
	Unsupported []string // constructs the rewrite leaves alone (the explorer does not control them)
}

// usesConcurrency: does any library file start goroutines or use channels? (syntactic, fast)
func usesConcurrency(files []string) bool {
	fset := token.NewFileSet()
	for _, f := range files {
		src, err := os.ReadFile(f)
		if err != nil {
			continue
		}
		if !bytes.Contains(src, []byte("go ")) && !bytes.Contains(src, []byte("chan")) && !bytes.Contains(src, []byte("<-")) && !bytes.Contains(src, []byte("select")) {
			continue
		}
		af, err := parser.ParseFile(fset, f, src, parser.SkipObjectResolution)
		if err != nil {
			continue
		}
		found := false
		ast.Inspect(af, func(n ast.Node) bool {
			switch x := n.(type) {
			case *ast.GoStmt, *ast.SendStmt, *ast.SelectStmt, *ast.ChanType:
				found = true
			case *ast.UnaryExpr:
				if x.Op == token.ARROW {
					found = true
				}
			}
			return !found
		})
		if found {
			return true
		}
	}
	return false
}

// ConcRewrites rewrites goroutine starts and channel operations of the library packages into calls of the vsync
// runtime (imported as vsyncrt). Returns nil maps when the library uses neither.
func ConcRewrites() (map[string][]byte, *ConcInfo, error) {
	info := &ConcInfo{}
	files, err := LibraryFiles()
	if err != nil {
		return nil, info, err
	}
	if !usesConcurrency(files) {
		return nil, info, nil
	}
	cfg := &packages.Config{
		Mode: packages.NeedName | packages.NeedFiles | packages.NeedSyntax | packages.NeedTypes | packages.NeedTypesInfo | packages.NeedImports | packages.NeedDeps,
		Dir:  "/verif",
		Env:  append(envOffline(), "GOFLAGS=-mod=mod"),
	}
	pkgs, err := packages.Load(cfg, "github.com/jsightapi/jsight-api-core/...", "github.com/jsightapi/jsight-schema-core/...")
	if err != nil {
		return nil, info, err
	}
	out := map[string][]byte{}
	for _, p := range pkgs {
		if strings.Contains(p.PkgPath, "/internal/cmd") || strings.HasSuffix(p.PkgPath, "/test") || strings.Contains(p.PkgPath, "/internal/mocks") {
			continue
		}
		if len(p.Errors) > 0 {
			continue
		}
		for _, f := range p.Syntax {
			path := p.Fset.Position(f.Package).Filename
			if strings.HasSuffix(path, "_test.go") {
				continue
			}
			n := rewriteConcFile(p, f, info)
			if n == 0 {
				continue
			}
			astutil.AddNamedImport(p.Fset, f, "vsyncrt", "verif/shim/vsync")
			var buf bytes.Buffer
			if err := printer.Fprint(&buf, p.Fset, f); err != nil {
				return nil, info, err
			}
			out[path] = buf.Bytes()
		}
	}
	return out, info, nil
}

func rt(name string, args ...ast.Expr) *ast.CallExpr {
	return &ast.CallExpr{Fun: &ast.SelectorExpr{X: ast.NewIdent("vsyncrt"), Sel: ast.NewIdent(name)}, Args: args}
}

func isLiteralLike(e ast.Expr) bool {
	switch x := e.(type) {
	case *ast.BasicLit:
		return true
	case *ast.Ident:
		return x.Name == "nil" || x.Name == "true" || x.Name == "false"
	}
	return false
}

func simpleChanExpr(e ast.Expr) bool {
	switch x := e.(type) {
	case *ast.Ident:
		return true
	case *ast.SelectorExpr:
		return simpleChanExpr(x.X)
	case *ast.ParenExpr:
		return simpleChanExpr(x.X)
	case *ast.IndexExpr:
		return simpleChanExpr(x.X) && (isLiteralLike(x.Index) || simpleChanExpr(x.Index))
	}
	return false
}

func rewriteConcFile(p *packages.Package, f *ast.File, info *ConcInfo) int {
	site := func(kind string, n ast.Node) string {
		pos := p.Fset.Position(n.Pos())
		return fmt.Sprintf("%s@%s:%d", kind, shortPath(pos.Filename), pos.Line)
	}
	// read-only pass: typed facts about the original nodes
	chanRange := map[*ast.RangeStmt]bool{}
	builtinClose := map[*ast.CallExpr]bool{}
	ast.Inspect(f, func(n ast.Node) bool {
		switch x := n.(type) {
		case *ast.RangeStmt:
			if tv, ok := p.TypesInfo.Types[x.X]; ok {
				if _, isChan := tv.Type.Underlying().(*types.Chan); isChan {
					chanRange[x] = true
				}
			}
		case *ast.CallExpr:
			if id, ok := x.Fun.(*ast.Ident); ok && id.Name == "close" && len(x.Args) == 1 {
				if _, ok := p.TypesInfo.Uses[id].(*types.Builtin); ok {
					builtinClose[x] = true
				}
			}
		}
		return true
	})
	n := 0
	origComm := map[*ast.CommClause]ast.Stmt{}
	skipSelect := map[*ast.SelectStmt]bool{}
	pre := func(c *astutil.Cursor) bool {
		if sel, ok := c.Node().(*ast.SelectStmt); ok {
			// decide support, then hide the communication statements from the generic rules
			ok := true
			for _, s := range sel.Body.List {
				cc := s.(*ast.CommClause)
				var ch ast.Expr
				switch m := cc.Comm.(type) {
				case nil:
				case *ast.SendStmt:
					ch = m.Chan
				case *ast.ExprStmt:
					if u, isU := m.X.(*ast.UnaryExpr); isU && u.Op == token.ARROW {
						ch = u.X
					}
				case *ast.AssignStmt:
					if len(m.Rhs) == 1 {
						if u, isU := m.Rhs[0].(*ast.UnaryExpr); isU && u.Op == token.ARROW {
							ch = u.X
						}
					}
				}
				if cc.Comm != nil && (ch == nil || !simpleChanExpr(ch)) {
					ok = false
				}
			}
			if !ok {
				skipSelect[sel] = true
				info.Unsupported = append(info.Unsupported, site("select(with a computed channel expression)", sel))
				return false // leave the whole statement alone
			}
			for _, s := range sel.Body.List {
				cc := s.(*ast.CommClause)
				origComm[cc] = cc.Comm
				if cc.Comm != nil {
					cc.Comm = &ast.EmptyStmt{Implicit: true} // placeholder, restored in post
				}
			}
		}
		return true
	}
	post := func(c *astutil.Cursor) bool {
		switch x := c.Node().(type) {
		case *ast.GoStmt:
			n++
			info.Sites = append(info.Sites, site("go", x))
			call := x.Call
			if fl, ok := call.Fun.(*ast.FuncLit); ok && len(call.Args) == 0 {
				c.Replace(&ast.ExprStmt{X: rt("Go", fl)})
				return true
			}
			var stmts []ast.Stmt
			stmts = append(stmts, &ast.AssignStmt{Lhs: []ast.Expr{ast.NewIdent("vsF")}, Tok: token.DEFINE, Rhs: []ast.Expr{call.Fun}})
			var args []ast.Expr
			for i, a := range call.Args {
				if isLiteralLike(a) {
					args = append(args, a)
					continue
				}
				name := fmt.Sprintf("vsA%d", i)
				stmts = append(stmts, &ast.AssignStmt{Lhs: []ast.Expr{ast.NewIdent(name)}, Tok: token.DEFINE, Rhs: []ast.Expr{a}})
				args = append(args, ast.NewIdent(name))
			}
			inner := &ast.CallExpr{Fun: ast.NewIdent("vsF"), Args: args, Ellipsis: call.Ellipsis}
			if call.Ellipsis != token.NoPos {
				inner.Ellipsis = 1
			}
			stmts = append(stmts, &ast.ExprStmt{X: rt("Go", &ast.FuncLit{Type: &ast.FuncType{Params: &ast.FieldList{}}, Body: &ast.BlockStmt{List: []ast.Stmt{&ast.ExprStmt{X: inner}}}})})
			c.Replace(&ast.BlockStmt{List: stmts})
		case *ast.SendStmt:
			n++
			info.Sites = append(info.Sites, site("send", x))
			c.Replace(&ast.ExprStmt{X: rt("Send", x.Chan, x.Value)})
		case *ast.UnaryExpr:
			if x.Op != token.ARROW {
				return true
			}
			n++
			info.Sites = append(info.Sites, site("receive", x))
			two := false
			switch par := c.Parent().(type) {
			case *ast.AssignStmt:
				two = len(par.Lhs) == 2 && len(par.Rhs) == 1
			case *ast.ValueSpec:
				two = len(par.Names) == 2 && len(par.Values) == 1
			}
			if two {
				c.Replace(rt("Recv", x.X))
			} else {
				c.Replace(rt("Recv1", x.X))
			}
		case *ast.CallExpr:
			if builtinClose[x] {
				n++
				info.Sites = append(info.Sites, site("close", x))
				c.Replace(rt("Close", x.Args[0]))
			}
		case *ast.RangeStmt:
			if !chanRange[x] {
				return true
			}
			if _, labeled := c.Parent().(*ast.LabeledStmt); labeled {
				info.Unsupported = append(info.Unsupported, site("labeled range over a channel", x))
				return true
			}
			n++
			info.Sites = append(info.Sites, site("range-chan", x))
			var recv ast.Stmt
			call := rt("Recv", ast.NewIdent("vsC"))
			switch {
			case x.Key == nil:
				recv = &ast.AssignStmt{Lhs: []ast.Expr{ast.NewIdent("_"), ast.NewIdent("vsOK")}, Tok: token.DEFINE, Rhs: []ast.Expr{call}}
			case x.Tok == token.DEFINE:
				recv = &ast.AssignStmt{Lhs: []ast.Expr{x.Key, ast.NewIdent("vsOK")}, Tok: token.DEFINE, Rhs: []ast.Expr{call}}
			default:
				recv = &ast.BlockStmt{List: []ast.Stmt{}} // replaced below
			}
			var loopBody []ast.Stmt
			if x.Key != nil && x.Tok != token.DEFINE {
				loopBody = append(loopBody,
					&ast.DeclStmt{Decl: &ast.GenDecl{Tok: token.VAR, Specs: []ast.Spec{&ast.ValueSpec{Names: []*ast.Ident{ast.NewIdent("vsOK")}, Type: ast.NewIdent("bool")}}}},
					&ast.AssignStmt{Lhs: []ast.Expr{x.Key, ast.NewIdent("vsOK")}, Tok: token.ASSIGN, Rhs: []ast.Expr{call}})
			} else {
				loopBody = append(loopBody, recv)
			}
			loopBody = append(loopBody,
				&ast.IfStmt{Cond: &ast.UnaryExpr{Op: token.NOT, X: ast.NewIdent("vsOK")}, Body: &ast.BlockStmt{List: []ast.Stmt{&ast.BranchStmt{Tok: token.BREAK}}}},
				x.Body)
			c.Replace(&ast.BlockStmt{List: []ast.Stmt{
				&ast.AssignStmt{Lhs: []ast.Expr{ast.NewIdent("vsC")}, Tok: token.DEFINE, Rhs: []ast.Expr{x.X}},
				&ast.ForStmt{Body: &ast.BlockStmt{List: loopBody}},
			}})
		case *ast.SelectStmt:
			if skipSelect[x] {
				return true
			}
			n++
			info.Sites = append(info.Sites, site("select", x))
			hasDefault := "false"
			var cases []ast.Expr
			var clauses []ast.Stmt
			idx := 0
			for _, s := range x.Body.List {
				cc := s.(*ast.CommClause)
				comm := origComm[cc]
				var head []ast.Stmt
				var label ast.Expr
				switch m := comm.(type) {
				case nil:
					hasDefault = "true"
					label = &ast.UnaryExpr{Op: token.SUB, X: &ast.BasicLit{Kind: token.INT, Value: "1"}}
				case *ast.SendStmt:
					cases = append(cases, rt("SelSend", m.Chan))
					head = append(head, &ast.ExprStmt{X: rt("SendNow", m.Chan, m.Value)})
				case *ast.ExprStmt:
					u := m.X.(*ast.UnaryExpr)
					cases = append(cases, rt("SelRecv", u.X))
					head = append(head, &ast.ExprStmt{X: rt("RecvNow", u.X)})
				case *ast.AssignStmt:
					u := m.Rhs[0].(*ast.UnaryExpr)
					cases = append(cases, rt("SelRecv", u.X))
					lhs := m.Lhs
					if len(lhs) == 1 {
						lhs = []ast.Expr{lhs[0], ast.NewIdent("_")}
					}
					head = append(head, &ast.AssignStmt{Lhs: lhs, Tok: m.Tok, Rhs: []ast.Expr{rt("RecvNow", u.X)}})
				}
				if comm != nil {
					label = &ast.BasicLit{Kind: token.INT, Value: fmt.Sprint(idx)}
					idx++
				}
				clauses = append(clauses, &ast.CaseClause{List: []ast.Expr{label}, Body: append(head, cc.Body...)})
			}
			args := append([]ast.Expr{ast.NewIdent(hasDefault)}, cases...)
			c.Replace(&ast.SwitchStmt{Tag: rt("SelectReady", args...), Body: &ast.BlockStmt{List: clauses}})
		}
		return true
	}
	astutil.Apply(f, pre, post)
	return n
}

// BuildVsync builds the cooperative-scheduler variant: package sync -> verif/shim/vsync, sync/atomic -> verif/shim/vatomic,
// goroutine starts and channel operations -> vsync runtime calls. The description of what was rewritten is cached next
// to the binary.
func BuildVsync() (string, int, *ConcInfo, error) {
	dir := os.Getenv("VCHECK_BUILD_DIR")
	infoFile := dir + "/ov-vsync.conc.json"
	info := &ConcInfo{}
	if b, err := os.ReadFile(infoFile); err == nil {
		if json.Unmarshal(b, info) == nil {
			if _, err := os.Stat(dir + "/vcheck-vsync"); err == nil {
				exe, n, err := Build("vsync", nil)
				return exe, n, info, err
			}
		}
	}
	conc, info, err := ConcRewrites()
	if err != nil {
		return "", 0, info, err
	}
	// map iteration is pinned to the canonical (sorted) order in this variant, so that an execution is a function of the
	// schedule alone (the map-order DFS of C06 owns the other orders)
	mapFiles, _, merr := MapRangeRewrites()
	if merr != nil {
		return "", 0, info, merr
	}
	imp1 := RewriteImport("sync", "sync", "verif/shim/vsync")
	imp2 := RewriteImport("sync/atomic", "atomic", "verif/shim/vatomic")
	exe, n, err := Build("vsync", func(path string, src []byte) ([]byte, bool) {
		changed := false
		if b, ok := conc[path]; ok {
			src, changed = b, true
			if _, both := mapFiles[path]; both {
				info.Unsupported = append(info.Unsupported, "map ranges of "+shortPath(path)+" (the file also starts goroutines or uses channels)")
			}
		} else if b, ok := mapFiles[path]; ok {
			src, changed = b, true
		}
		if b, ok := imp1(path, src); ok {
			src, changed = b, true
		}
		if b, ok := imp2(path, src); ok {
			src, changed = b, true
		}
		return src, changed
	})
	if err == nil {
		b, _ := json.Marshal(info)
		os.WriteFile(infoFile, b, 0o644)
	}
	return exe, n, info, err
}
