package overlay

import "os"

func osEnviron() []string { return os.Environ() }
