package overlay

import (
	"bytes"
	"fmt"
	"go/ast"
	"go/printer"
	"go/token"
	"go/types"
	"strings"

	"golang.org/x/tools/go/ast/astutil"
	"golang.org/x/tools/go/packages"
)

// MapRangeRewrites loads the library packages with type information and returns, per file, the source in which every
// `for ... range <map>` has been rewritten to iterate over vmap.Keys. Also returns the list of rewritten sites.
func MapRangeRewrites() (map[string][]byte, []string, error) {
	cfg := &packages.Config{
		Mode: packages.NeedName | packages.NeedFiles | packages.NeedSyntax | packages.NeedTypes | packages.NeedTypesInfo | packages.NeedImports | packages.NeedDeps,
		Dir:  "/verif",
		Env:  append(envOffline(), "GOFLAGS=-mod=mod"),
	}
	pkgs, err := packages.Load(cfg, "github.com/jsightapi/jsight-api-core/...", "github.com/jsightapi/jsight-schema-core/...")
	if err != nil {
		return nil, nil, err
	}
	out := map[string][]byte{}
	var sites []string
	for _, p := range pkgs {
		if strings.Contains(p.PkgPath, "/internal/cmd") || strings.HasSuffix(p.PkgPath, "/test") || strings.Contains(p.PkgPath, "/internal/mocks") {
			continue
		}
		if len(p.Errors) > 0 {
			continue
		}
		for _, f := range p.Syntax {
			path := p.Fset.Position(f.Package).Filename
			if strings.HasSuffix(path, "_test.go") {
				continue
			}
			n := 0
			astutil.Apply(f, func(c *astutil.Cursor) bool {
				rs, ok := c.Node().(*ast.RangeStmt)
				if !ok {
					return true
				}
				tv, ok := p.TypesInfo.Types[rs.X]
				if !ok {
					return true
				}
				if _, isMap := tv.Type.Underlying().(*types.Map); !isMap {
					return true
				}
				if _, labeled := c.Parent().(*ast.LabeledStmt); labeled {
					return true
				}
				pos := p.Fset.Position(rs.Pos())
				site := fmt.Sprintf("%s:%d", shortPath(pos.Filename), pos.Line)
				sites = append(sites, site)
				n++
				c.Replace(rewriteRange(rs, site))
				return true
			}, nil)
			if n == 0 {
				continue
			}
			astutil.AddNamedImport(p.Fset, f, "vmap", "verif/shim/vmap")
			var buf bytes.Buffer
			if err := printer.Fprint(&buf, p.Fset, f); err != nil {
				return nil, nil, err
			}
			out[path] = buf.Bytes()
		}
	}
	return out, sites, nil
}

func shortPath(p string) string {
	if i := strings.Index(p, "jsight-api-core/"); i >= 0 {
		return p[i:]
	}
	if i := strings.Index(p, "jsight-schema-core@"); i >= 0 {
		return p[i:]
	}
	return p
}

func envOffline() []string {
	return append([]string{"GOPROXY=off", "GOSUMDB=off", "GOTOOLCHAIN=local"}, osEnviron()...)
}

// rewriteRange: { vmapM := X; for _, vmapK := range vmap.Keys(vmapM, site) { vmapV, vmapOK := vmapM[vmapK]; if !vmapOK { continue }; K, V :=/= vmapK, vmapV; body } }
func rewriteRange(rs *ast.RangeStmt, site string) ast.Stmt {
	id := func(s string) *ast.Ident { return ast.NewIdent(s) }
	isBlank := func(e ast.Expr) bool {
		if e == nil {
			return true
		}
		i, ok := e.(*ast.Ident)
		return ok && i.Name == "_"
	}
	var pre []ast.Stmt
	pre = append(pre, &ast.AssignStmt{Lhs: []ast.Expr{id("vmapV"), id("vmapOK")}, Tok: token.DEFINE,
		Rhs: []ast.Expr{&ast.IndexExpr{X: id("vmapM"), Index: id("vmapK")}}})
	pre = append(pre, &ast.IfStmt{Cond: &ast.UnaryExpr{Op: token.NOT, X: id("vmapOK")}, Body: &ast.BlockStmt{List: []ast.Stmt{&ast.BranchStmt{Tok: token.CONTINUE}}}})
	pre = append(pre, &ast.AssignStmt{Lhs: []ast.Expr{id("_")}, Tok: token.ASSIGN, Rhs: []ast.Expr{id("vmapV")}})
	tok := rs.Tok
	if tok == token.ILLEGAL {
		tok = token.DEFINE
	}
	if !isBlank(rs.Key) {
		pre = append(pre, &ast.AssignStmt{Lhs: []ast.Expr{rs.Key}, Tok: tok, Rhs: []ast.Expr{id("vmapK")}})
	}
	if !isBlank(rs.Value) {
		pre = append(pre, &ast.AssignStmt{Lhs: []ast.Expr{rs.Value}, Tok: tok, Rhs: []ast.Expr{id("vmapV")}})
	}
	body := &ast.BlockStmt{List: append(pre, rs.Body)} // the original body keeps its own scope
	loop := &ast.RangeStmt{
		Key: id("_"), Value: id("vmapK"), Tok: token.DEFINE,
		X:    &ast.CallExpr{Fun: &ast.SelectorExpr{X: id("vmap"), Sel: id("Keys")}, Args: []ast.Expr{id("vmapM"), &ast.BasicLit{Kind: token.STRING, Value: fmt.Sprintf("%q", site)}}},
		Body: body,
	}
	return &ast.BlockStmt{List: []ast.Stmt{
		&ast.AssignStmt{Lhs: []ast.Expr{id("vmapM")}, Tok: token.DEFINE, Rhs: []ast.Expr{rs.X}},
		loop,
	}}
}

// MapRangeRewritesCached defers the (slow, ~6 s) package loading until a variant actually has to be built.
func MapRangeRewritesCached() (func() map[string][]byte, func() []string, error) {
	var files map[string][]byte
	var sites []string
	var err error
	loaded := false
	load := func() {
		if !loaded {
			files, sites, err = MapRangeRewrites()
			loaded = true
		}
	}
	return func() map[string][]byte {
		load()
		if err != nil {
			return nil
		}
		return files
	}, func() []string { load(); return sites }, nil
}
