// Package overlay builds worker variants whose jsight-api-core / jsight-schema-core sources are rewritten on the fly
// (go build -overlay) from /repo's current tree; nothing is written into /repo or the module cache.
package overlay

import (
	"bytes"
	"encoding/json"
	"fmt"
	"go/ast"
	"go/parser"
	"go/printer"
	"go/token"
	"os"
	"os/exec"
	"path/filepath"
	"strings"
)

const RepoDir = "/repo"

func DepDir() (string, error) {
	cmd := exec.Command("go", "list", "-m", "-f", "{{.Dir}}", "github.com/jsightapi/jsight-schema-core")
	cmd.Dir = "/verif"
	out, err := cmd.Output()
	if err != nil {
		return "", fmt.Errorf("go list -m jsight-schema-core: %v", err)
	}
	return strings.TrimSpace(string(out)), nil
}

// LibraryFiles lists the non-test Go files of the library packages of the repository and of jsight-schema-core.
func LibraryFiles() ([]string, error) {
	dep, err := DepDir()
	if err != nil {
		return nil, err
	}
	var out []string
	for _, root := range []string{RepoDir, dep} {
		filepath.Walk(root, func(p string, info os.FileInfo, err error) error {
			if err != nil {
				return nil
			}
			if info.IsDir() {
				b := info.Name()
				if b == ".git" || b == "testdata" || (root == RepoDir && (p == RepoDir+"/internal" || p == RepoDir+"/test" || p == RepoDir+"/docs")) {
					return filepath.SkipDir
				}
				return nil
			}
			if strings.HasSuffix(p, ".go") && !strings.HasSuffix(p, "_test.go") {
				out = append(out, p)
			}
			return nil
		})
	}
	return out, nil
}

// Build builds variant <name> of cmd/vcheck: rewrite is called for every library file and returns the new source
// (ok=false: unchanged). The binary is cached in $VCHECK_BUILD_DIR (set by bin/vcheck, keyed by the tree hash).
func Build(name string, rewrite func(path string, src []byte) ([]byte, bool)) (string, int, error) {
	dir := os.Getenv("VCHECK_BUILD_DIR")
	if dir == "" {
		return "", 0, fmt.Errorf("VCHECK_BUILD_DIR not set (run through bin/vcheck)")
	}
	exe := filepath.Join(dir, "vcheck-"+name)
	cnt := filepath.Join(dir, "ov-"+name+".count")
	if _, err := os.Stat(exe); err == nil {
		n := 0
		if b, err := os.ReadFile(cnt); err == nil {
			fmt.Sscan(string(b), &n)
		}
		return exe, n, nil
	}
	files, err := LibraryFiles()
	if err != nil {
		return "", 0, err
	}
	ovDir := filepath.Join(dir, fmt.Sprintf("ov-%s-%d", name, os.Getpid()))
	os.MkdirAll(ovDir, 0o755)
	repl := map[string]string{}
	for i, f := range files {
		src, err := os.ReadFile(f)
		if err != nil {
			continue
		}
		ns, ok := rewrite(f, src)
		if !ok {
			continue
		}
		dst := filepath.Join(ovDir, fmt.Sprintf("f%d.go", i))
		os.WriteFile(dst, ns, 0o644)
		repl[f] = dst
	}
	j, _ := json.Marshal(map[string]any{"Replace": repl})
	ovFile := filepath.Join(ovDir, "overlay.json")
	os.WriteFile(ovFile, j, 0o644)
	tmp := fmt.Sprintf("%s.%d", exe, os.Getpid())
	cmd := exec.Command("go", "build", "-tags", "verif", "-overlay", ovFile, "-o", tmp, "./cmd/vcheck")
	cmd.Dir = "/verif"
	cmd.Env = append(os.Environ(), "GOFLAGS=-mod=mod", "GOPROXY=off", "GOSUMDB=off", "GOTOOLCHAIN=local", "GODEBUG=goindex=0")
	out, err := cmd.CombinedOutput()
	if err != nil {
		return "", 0, fmt.Errorf("building variant %s failed: %v\n%s", name, err, out)
	}
	os.Rename(tmp, exe)
	os.WriteFile(cnt, []byte(fmt.Sprint(len(repl))), 0o644)
	os.RemoveAll(ovDir)
	return exe, len(repl), nil
}

// RewriteImport returns a rewriter that makes every import of package from (whatever its local name) refer to package
// to; an unnamed import gets the local name alias.
func RewriteImport(from, alias, to string) func(string, []byte) ([]byte, bool) {
	return func(path string, src []byte) ([]byte, bool) {
		if !bytes.Contains(src, []byte(`"`+from+`"`)) {
			return nil, false
		}
		fset := token.NewFileSet()
		f, err := parser.ParseFile(fset, path, src, parser.ParseComments)
		if err != nil {
			return nil, false
		}
		changed := false
		for _, im := range f.Imports {
			if im.Path.Value != `"`+from+`"` {
				continue
			}
			im.Path.Value = `"` + to + `"`
			if im.Name == nil {
				im.Name = ast.NewIdent(alias)
			}
			changed = true
		}
		if !changed {
			return nil, false
		}
		var buf bytes.Buffer
		if err := printer.Fprint(&buf, fset, f); err != nil {
			return nil, false
		}
		return buf.Bytes(), true
	}
}
