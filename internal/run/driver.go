package run

import (
	"bufio"
	"bytes"
	"encoding/binary"
	"encoding/json"
	"fmt"
	"io"
	"os"
	"os/exec"
	"path/filepath"
	"sort"
	"strings"
	"sync"
	"syscall"
	"time"
)

// Crash is an abnormal worker death attributed to a case.
type Crash struct {
	CaseID string `json:"case_id"`
	Kind   string `json:"kind"`
	Class  string `json:"class"` // "fatal", "timeout"
	Stderr string `json:"stderr"`
	Repro  int    `json:"reproduced"`
	Params json.RawMessage
}

type Result struct {
	Counts     map[string]int64
	Distinct   int
	Samples    []any
	Violations []Violation
	Crashes    []Crash
	Emitted    map[string][]json.RawMessage
	Incomplete []string // reasons the run is not exhaustive
	Executions int64
	crashSigs  map[string]bool
}

type Pool struct {
	Exe     string   // worker binary (defaults to os.Args[0])
	Env     []string // extra env
	Workers int
	TmpDir  string
	MemKB   int64 // ulimit -v in KiB (0 = none)
}

func DefaultWorkers() int {
	n := 16
	if s := os.Getenv("VERIF_WORKERS"); s != "" {
		fmt.Sscan(s, &n)
	}
	return n
}

// Run runs worker kind with params over p.Workers shards and merges the results.
func (p *Pool) Run(kind string, params any) *Result {
	pj, _ := json.Marshal(params)
	res := &Result{Counts: map[string]int64{}, Emitted: map[string][]json.RawMessage{}}
	n := p.Workers
	if n <= 0 {
		n = DefaultWorkers()
	}
	var mu sync.Mutex
	var wg sync.WaitGroup
	hashSet := map[uint64]struct{}{}
	for i := 0; i < n; i++ {
		wg.Add(1)
		go func(shard int) {
			defer wg.Done()
			p.runShard(kind, pj, shard, n, res, &mu, hashSet)
		}(i)
	}
	wg.Wait()
	res.Distinct = len(hashSet)
	return res
}

// RunOnly re-runs a single case (for replay and timeout reproduction).
func (p *Pool) RunOnly(kind string, params json.RawMessage, caseID string) *Result {
	res := &Result{Counts: map[string]int64{}, Emitted: map[string][]json.RawMessage{}}
	var mu sync.Mutex
	hashSet := map[uint64]struct{}{}
	p.runOne(kind, params, 0, 1, caseID, "", res, &mu, hashSet, false)
	return res
}

func (p *Pool) runShard(kind string, pj json.RawMessage, shard, of int, res *Result, mu *sync.Mutex, hs map[uint64]struct{}) {
	resume := ""
	for attempt := 0; attempt < 6; attempt++ {
		died, cur := p.runOne(kind, pj, shard, of, "", resume, res, mu, hs, true)
		if !died {
			return
		}
		if cur == "" || cur == resume {
			mu.Lock()
			res.Incomplete = append(res.Incomplete, fmt.Sprintf("worker %s shard %d died without attributable case", kind, shard))
			mu.Unlock()
			return
		}
		resume = cur
	}
	mu.Lock()
	res.Incomplete = append(res.Incomplete, fmt.Sprintf("worker %s shard %d: gave up after 6 worker deaths (each is reported); the rest of the shard was not explored", kind, shard))
	mu.Unlock()
}

// runOne runs one worker process; returns (died abnormally, case id being run at death).
func (p *Pool) runOne(kind string, pj json.RawMessage, shard, of int, only, resume string, res *Result, mu *sync.Mutex,
	hs map[uint64]struct{}, attribute bool) (bool, string) {
	exe := p.Exe
	if exe == "" {
		exe = os.Args[0]
	}
	tmp := p.TmpDir
	if tmp == "" {
		tmp = os.TempDir()
	}
	base := filepath.Join(tmp, fmt.Sprintf("vw-%d-%s-%d-%d", os.Getpid(), kind, shard, time.Now().UnixNano()))
	curPath, hashPath := base+".cur", base+".hashes"
	defer os.Remove(curPath)
	defer os.Remove(hashPath)
	args := []string{"worker", kind, fmt.Sprint(shard), fmt.Sprint(of), string(pj), curPath, hashPath, only, resume}
	var cmd *exec.Cmd
	if p.MemKB > 0 {
		sh := fmt.Sprintf("ulimit -v %d; exec \"$0\" \"$@\"", p.MemKB)
		cmd = exec.Command("/bin/sh", append([]string{"-c", sh, exe}, args...)...)
	} else {
		cmd = exec.Command(exe, args...)
	}
	cmd.Env = append(append(os.Environ(), "GOMAXPROCS=2", "VERIF_TMP="+tmp), p.Env...)
	cmd.SysProcAttr = &syscall.SysProcAttr{Pdeathsig: syscall.SIGKILL}
	stdout, _ := cmd.StdoutPipe()
	var stderr bytes.Buffer
	cmd.Stderr = &limitedWriter{w: &stderr, n: 1 << 16}
	if err := cmd.Start(); err != nil {
		mu.Lock()
		res.Incomplete = append(res.Incomplete, "cannot start worker: "+err.Error())
		mu.Unlock()
		return false, ""
	}
	done := false
	rd := bufio.NewReaderSize(stdout, 1<<20)
	for {
		line, err := rd.ReadBytes('\n')
		if len(line) > 0 {
			line = bytes.TrimRight(line, "\n")
			switch {
			case bytes.HasPrefix(line, []byte("V ")):
				var v Violation
				if json.Unmarshal(line[2:], &v) == nil {
					mu.Lock()
					res.Violations = append(res.Violations, v)
					mu.Unlock()
				}
			case bytes.HasPrefix(line, []byte("E ")):
				rest := line[2:]
				sp := bytes.IndexByte(rest, ' ')
				if sp > 0 {
					tag := string(rest[:sp])
					mu.Lock()
					res.Emitted[tag] = append(res.Emitted[tag], append(json.RawMessage{}, rest[sp+1:]...))
					mu.Unlock()
				}
			case bytes.HasPrefix(line, []byte("S ")):
				var s Summary
				if json.Unmarshal(line[2:], &s) == nil {
					mu.Lock()
					for k, v := range s.Counts {
						res.Counts[k] += v
					}
					if len(res.Samples) < 6 {
						res.Samples = append(res.Samples, s.Samples...)
					}
					mu.Unlock()
				}
			case bytes.Equal(line, []byte("DONE")):
				done = true
			}
		}
		if err != nil {
			break
		}
	}
	werr := cmd.Wait()
	// merge hashes
	if hb, err := os.ReadFile(hashPath); err == nil {
		mu.Lock()
		for i := 0; i+8 <= len(hb); i += 8 {
			hs[binary.LittleEndian.Uint64(hb[i:])] = struct{}{}
		}
		mu.Unlock()
	}
	if done && werr == nil {
		return false, ""
	}
	cur := ""
	if cb, err := os.ReadFile(curPath); err == nil {
		cur = strings.TrimSpace(string(cb))
	}
	se := stderr.String()
	class := "fatal"
	if strings.Contains(se, "TIMEOUT ") {
		class = "timeout"
	}
	if cur != "" {
		c := Crash{CaseID: cur, Kind: kind, Class: class, Stderr: crashSummary(se), Params: pj}
		// reproduce on fresh workers (only the first death with a given signature; the others are counted as reproduced)
		mu.Lock()
		if res.crashSigs == nil {
			res.crashSigs = map[string]bool{}
		}
		first := !res.crashSigs[c.Class+c.Stderr]
		res.crashSigs[c.Class+c.Stderr] = true
		mu.Unlock()
		if !first {
			c.Repro = 2
		}
		for k := 0; k < 2 && attribute && first; k++ {
			r2 := &Result{Counts: map[string]int64{}, Emitted: map[string][]json.RawMessage{}}
			var mu2 sync.Mutex
			d, _ := p.runOne(kind, pj, 0, 1, cur, "", r2, &mu2, map[uint64]struct{}{}, false)
			if d {
				c.Repro++
			}
		}
		mu.Lock()
		res.Crashes = append(res.Crashes, c)
		mu.Unlock()
	}
	return true, cur
}

func crashSummary(se string) string {
	lines := strings.Split(se, "\n")
	var keep []string
	for _, l := range lines {
		if strings.HasPrefix(l, "fatal error:") || strings.HasPrefix(l, "panic:") || strings.HasPrefix(l, "TIMEOUT") ||
			strings.HasPrefix(l, "runtime: goroutine stack exceeds") {
			keep = append(keep, l)
		}
	}
	// innermost repo function
	for _, l := range lines {
		if strings.HasPrefix(l, "github.com/jsightapi/jsight-api-core/") {
			keep = append(keep, "at "+strings.TrimSpace(strings.SplitN(l, "(", 2)[0]))
			break
		}
	}
	if len(keep) == 0 && len(se) > 400 {
		return se[:400]
	}
	if len(keep) == 0 {
		return se
	}
	return strings.Join(keep, "; ")
}

type limitedWriter struct {
	w io.Writer
	n int
}

func (l *limitedWriter) Write(b []byte) (int, error) {
	if l.n > 0 {
		k := len(b)
		if k > l.n {
			k = l.n
		}
		l.w.Write(b[:k])
		l.n -= k
	}
	return len(b), nil
}

func SortedKeys(m map[string]int64) []string {
	ks := make([]string, 0, len(m))
	for k := range m {
		ks = append(ks, k)
	}
	sort.Strings(ks)
	return ks
}
