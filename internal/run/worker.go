// Package run: worker-subprocess pool with crash attribution, and the worker-side recorder.
package run

import (
	"bufio"
	"encoding/binary"
	"encoding/json"
	"fmt"
	"hash/fnv"
	"os"
	"sync"
	"time"
)

// Violation is one oracle failure, found by a worker or by the driver.
type Violation struct {
	Prop   string          `json:"property"`
	Key    string          `json:"key"`  // narrow signature, matched against known_findings.jsonl
	What   string          `json:"what"` // human readable
	Kind   string          `json:"kind"` // worker kind that can replay it
	Params json.RawMessage `json:"params,omitempty"`
	CaseID string          `json:"case_id"`
	Detail any             `json:"detail,omitempty"`
}

// W is the worker-side recorder.
type W struct {
	Shard, Of int
	Only      string // run just this case id
	resume    string // skip cases up to and including this id
	Kind      string
	Params    json.RawMessage
	Deadline  time.Duration

	cur       *os.File
	hashFile  *os.File
	out       *bufio.Writer
	mu        sync.Mutex
	counts    map[string]int64
	hashes    map[uint64]struct{}
	samples   []any
	maxSample int
	curID     string
	curStart  time.Time
	nViol     int
	idx       int64
	seenKeys  map[string]int
	seedOff   int64 // VERIF_SEED only rotates which shard takes which case; the set of cases is the same
}

func NewW(kind string, shard, of int, only, resume, curPath, hashPath string, params json.RawMessage) *W {
	w := &W{Shard: shard, Of: of, Only: only, resume: resume, Kind: kind, Params: params,
		counts: map[string]int64{}, hashes: map[uint64]struct{}{}, maxSample: 3,
		out: bufio.NewWriterSize(os.Stdout, 1<<16), Deadline: 20 * time.Second, seenKeys: map[string]int{}}
	if s := os.Getenv("VERIF_SEED"); s != "" {
		var v int64
		fmt.Sscan(s, &v)
		if v < 0 {
			v = -v
		}
		w.seedOff = v % 1024
	}
	if curPath != "" {
		w.cur, _ = os.OpenFile(curPath, os.O_RDWR|os.O_CREATE|os.O_TRUNC, 0o644)
	}
	if hashPath != "" {
		w.hashFile, _ = os.OpenFile(hashPath, os.O_WRONLY|os.O_CREATE|os.O_APPEND, 0o644)
	}
	go w.watchdog()
	return w
}

func (w *W) watchdog() {
	for {
		time.Sleep(500 * time.Millisecond)
		w.mu.Lock()
		id, st := w.curID, w.curStart
		w.mu.Unlock()
		if id != "" && time.Since(st) > w.Deadline {
			fmt.Fprintf(os.Stderr, "TIMEOUT %s\n", id)
			os.Exit(3)
		}
	}
}

// Mine reports whether the n-th case (a running counter kept by the caller or by NextMine) belongs to this shard.
func (w *W) Mine(n int64) bool { return w.Of <= 1 || int((n+w.seedOff)%int64(w.Of)) == w.Shard }

// Owner returns the shard that takes case n.
func (w *W) Owner(n int64) int {
	if w.Of <= 1 {
		return 0
	}
	return int((n + w.seedOff) % int64(w.Of))
}

// NextMine increments the internal case counter and says whether this case is ours.
func (w *W) NextMine() bool { w.idx++; return w.Mine(w.idx - 1) }

// Begin marks the start of a case; it returns false when the case must be skipped (resume / only filters).
func (w *W) Begin(id string) bool {
	if w.Only != "" && id != w.Only {
		return false
	}
	if w.resume != "" {
		if id == w.resume {
			w.resume = ""
		}
		return false
	}
	w.mu.Lock()
	w.curID, w.curStart = id, time.Now()
	w.mu.Unlock()
	if w.cur != nil {
		var rec [256]byte
		n := copy(rec[:], id)
		for i := n; i < len(rec); i++ {
			rec[i] = ' '
		}
		rec[255] = '\n'
		w.cur.WriteAt(rec[:], 0)
	}
	return true
}

// Touch tells the watchdog that the current case is making progress.
func (w *W) Touch() {
	w.mu.Lock()
	w.curStart = time.Now()
	w.mu.Unlock()
}

// End marks the end of the current case.
func (w *W) End() {
	w.mu.Lock()
	w.curID = ""
	w.mu.Unlock()
}

func (w *W) Count(key string, n int64) { w.counts[key] += n }

// Nontrivial records a distinct non-trivial case by content hash.
func (w *W) Nontrivial(parts ...string) {
	h := fnv.New64a()
	for _, p := range parts {
		h.Write([]byte(p))
		h.Write([]byte{0})
	}
	v := h.Sum64()
	if _, ok := w.hashes[v]; !ok {
		w.hashes[v] = struct{}{}
	}
}

func (w *W) Sample(v any) {
	if len(w.samples) < w.maxSample {
		w.samples = append(w.samples, v)
	}
}

// Violation reports an oracle failure. At most 5 violations per key per worker are emitted in full.
func (w *W) Violation(prop, key, what string, detail any) {
	w.nViol++
	w.seenKeys[prop+"|"+key]++
	if w.seenKeys[prop+"|"+key] > 5 {
		w.counts["violations_suppressed_same_key"]++
		return
	}
	v := Violation{Prop: prop, Key: key, What: what, Kind: w.Kind, Params: w.Params, CaseID: w.curID, Detail: detail}
	b, _ := json.Marshal(v)
	w.out.WriteString("V ")
	w.out.Write(b)
	w.out.WriteString("\n")
	w.out.Flush()
}

// Emit sends an arbitrary record to the driver (for oracles that need cross-case comparison).
func (w *W) Emit(tag string, v any) {
	b, _ := json.Marshal(v)
	w.out.WriteString("E " + tag + " ")
	w.out.Write(b)
	w.out.WriteString("\n")
}

type Summary struct {
	Counts  map[string]int64 `json:"counts"`
	Samples []any            `json:"samples"`
	NHashes int              `json:"n_hashes"`
}

func (w *W) Finish() {
	if w.hashFile != nil {
		bw := bufio.NewWriter(w.hashFile)
		var b [8]byte
		for h := range w.hashes {
			binary.LittleEndian.PutUint64(b[:], h)
			bw.Write(b[:])
		}
		bw.Flush()
		w.hashFile.Close()
	}
	b, _ := json.Marshal(Summary{Counts: w.counts, Samples: w.samples, NHashes: len(w.hashes)})
	w.out.WriteString("S ")
	w.out.Write(b)
	w.out.WriteString("\nDONE\n")
	w.out.Flush()
}
