package ref

import (
	"fmt"
	"regexp"
	"strings"

	"verif/internal/oj"
)

type O = oj.O

func asO(v any) (*O, bool)    { o, ok := v.(*O); return o, ok }
func asA(v any) ([]any, bool) { a, ok := v.([]any); return a, ok }
func asS(v any) (string, bool) {
	s, ok := v.(string)
	return s, ok
}

// ValidateJDoc checks the JDoc Exchange 2.0.0 shape of a parsed ToJson document; returns (clause, message) or "".
func ValidateJDoc(doc any) (string, string) {
	root, ok := asO(doc)
	if !ok {
		return "root", "document is not an object"
	}
	allowed := map[string]bool{"tags": true, "info": true, "servers": true, "userTypes": true, "userEnums": true, "interactions": true, "jsight": true, "jdocExchangeVersion": true}
	for _, k := range root.Keys {
		if !allowed[k] {
			return "top-level-key", "unexpected top-level key " + k
		}
	}
	for _, k := range []string{"tags", "interactions", "jsight", "jdocExchangeVersion"} {
		if _, ok := root.Vals[k]; !ok {
			return "top-level-key", "missing top-level key " + k
		}
	}
	if v, _ := asS(root.Vals["jdocExchangeVersion"]); v != "2.0.0" {
		return "version", "jdocExchangeVersion is not 2.0.0"
	}
	if _, ok := asS(root.Vals["jsight"]); !ok {
		return "jsight", "jsight is not a string"
	}
	if info, ok := root.Vals["info"]; ok {
		io, ok := asO(info)
		if !ok {
			return "info", "info is not an object"
		}
		for _, k := range io.Keys {
			if k != "title" && k != "version" && k != "description" {
				return "info", "unexpected info key " + k
			}
			if _, ok := asS(io.Vals[k]); !ok {
				return "info", "info." + k + " is not a string"
			}
		}
	}
	if sv, ok := root.Vals["servers"]; ok {
		so, ok := asO(sv)
		if !ok {
			return "servers", "servers is not an object"
		}
		for _, n := range so.Keys {
			s, ok := asO(so.Vals[n])
			if !ok {
				return "server", "server " + n + " is not an object"
			}
			if _, ok := asS(s.Vals["baseUrl"]); !ok {
				return "server", "server " + n + " has no baseUrl string"
			}
		}
	}
	tags, ok := asO(root.Vals["tags"])
	if !ok {
		return "tags", "tags is not an object"
	}
	for _, n := range tags.Keys {
		if c, m := validateTag(n, tags.Vals[n]); c != "" {
			return c, m
		}
	}
	if tv, ok := root.Vals["userTypes"]; ok {
		to, ok := asO(tv)
		if !ok {
			return "userTypes", "userTypes is not an object"
		}
		for _, n := range to.Keys {
			t, ok := asO(to.Vals[n])
			if !ok {
				return "userType", "user type " + n + " is not an object"
			}
			if c, m := validateSchema(t.Vals["schema"], "userTypes/"+n); c != "" {
				return c, m
			}
		}
	}
	if ev, ok := root.Vals["userEnums"]; ok {
		eo, ok := asO(ev)
		if !ok {
			return "userEnums", "userEnums is not an object"
		}
		for _, n := range eo.Keys {
			e, ok := asO(eo.Vals[n])
			if !ok {
				return "userEnum", "user enum " + n + " is not an object"
			}
			for _, k := range []string{"annotation", "description"} {
				if _, ok := asS(e.Vals[k]); !ok {
					return "userEnum", "user enum " + n + " lacks string " + k
				}
			}
			v, ok := asO(e.Vals["value"])
			if !ok {
				return "userEnum", "user enum " + n + " lacks value"
			}
			if tt, _ := asS(v.Vals["tokenType"]); tt != "array" {
				return "userEnum", "user enum " + n + " value is not an array rule"
			}
			kids, ok := asA(v.Vals["children"])
			if !ok && v.Vals["children"] != nil {
				return "userEnum", "user enum " + n + " children is not an array"
			}
			for _, k := range kids {
				ko, ok := asO(k)
				if !ok {
					return "userEnum", "enum value is not an object"
				}
				if _, ok := asS(ko.Vals["tokenType"]); !ok {
					return "userEnum", "enum value lacks tokenType"
				}
				if _, ok := asS(ko.Vals["scalarValue"]); !ok {
					return "userEnum", "enum value lacks scalarValue"
				}
			}
		}
	}
	inter, ok := asO(root.Vals["interactions"])
	if !ok {
		return "interactions", "interactions is not an object"
	}
	for _, id := range inter.Keys {
		if c, m := validateInteraction(id, inter.Vals[id]); c != "" {
			return c, m
		}
	}
	return "", ""
}

func validateTag(n string, v any) (string, string) {
	t, ok := asO(v)
	if !ok {
		return "tag", "tag " + n + " is not an object"
	}
	for _, k := range []string{"name", "title"} {
		if _, ok := asS(t.Vals[k]); !ok {
			return "tag", "tag " + n + " lacks string " + k
		}
	}
	gg, ok := asA(t.Vals["interactionGroups"])
	if !ok {
		return "tag", "tag " + n + " lacks interactionGroups"
	}
	for _, g := range gg {
		gOb, ok := asO(g)
		if !ok {
			return "tag", "interaction group is not an object"
		}
		if p, _ := asS(gOb.Vals["protocol"]); p != "http" && p != "json-rpc-2.0" {
			return "tag", "interaction group protocol " + p
		}
		ii, ok := asA(gOb.Vals["interactions"])
		if !ok {
			return "tag", "interaction group lacks interactions"
		}
		for _, i := range ii {
			if _, ok := asS(i); !ok {
				return "tag", "interaction id is not a string"
			}
		}
	}
	if ch, ok := t.Vals["children"]; ok {
		co, ok := asO(ch)
		if !ok {
			return "tag", "tag children is not an object"
		}
		for _, k := range co.Keys {
			if c, m := validateTag(k, co.Vals[k]); c != "" {
				return c, m
			}
		}
	}
	return "", ""
}

var httpMethods = map[string]bool{"GET": true, "POST": true, "PUT": true, "PATCH": true, "DELETE": true}

func validateInteraction(id string, v any) (string, string) {
	i, ok := asO(v)
	if !ok {
		return "interaction", "interaction " + id + " is not an object"
	}
	for _, k := range []string{"id", "protocol", "path"} {
		if _, ok := asS(i.Vals[k]); !ok {
			return "interaction", "interaction " + id + " lacks string " + k
		}
	}
	if _, ok := asA(i.Vals["tags"]); !ok {
		return "interaction", "interaction " + id + " lacks tags array"
	}
	proto, _ := asS(i.Vals["protocol"])
	sub := func(key string, schemaKeys ...string) (string, string) {
		x, present := i.Vals[key]
		if !present {
			return "", ""
		}
		xo, ok := asO(x)
		if !ok {
			return "interaction", id + "." + key + " is not an object"
		}
		return validateSchema(xo.Vals["schema"], id+"/"+key)
	}
	switch proto {
	case "http":
		if m, _ := asS(i.Vals["httpMethod"]); !httpMethods[m] {
			return "interaction", "interaction " + id + " has httpMethod " + m
		}
		for _, k := range []string{"pathVariables", "query"} {
			if c, m := sub(k); c != "" {
				return c, m
			}
		}
		if q, ok := asO(i.Vals["query"]); ok {
			if _, ok := asS(q.Vals["format"]); !ok {
				return "interaction", id + ".query lacks format"
			}
		}
		if r, present := i.Vals["request"]; present {
			ro, ok := asO(r)
			if !ok {
				return "interaction", id + ".request is not an object"
			}
			if c, m := validateBody(ro.Vals["body"], id+"/request/body"); c != "" {
				return c, m
			}
			if h, ok := ro.Vals["headers"]; ok {
				ho, ok := asO(h)
				if !ok {
					return "interaction", id + ".request.headers is not an object"
				}
				if c, m := validateSchema(ho.Vals["schema"], id+"/request/headers"); c != "" {
					return c, m
				}
			}
		}
		if rs, present := i.Vals["responses"]; present {
			ra, ok := asA(rs)
			if !ok {
				return "interaction", id + ".responses is not an array"
			}
			for n, r := range ra {
				ro, ok := asO(r)
				if !ok {
					return "interaction", id + ".responses element is not an object"
				}
				if _, ok := asS(ro.Vals["code"]); !ok {
					return "interaction", id + ".responses element lacks code"
				}
				if c, m := validateBody(ro.Vals["body"], fmt.Sprintf("%s/responses/%d/body", id, n)); c != "" {
					return c, m
				}
				if h, ok := ro.Vals["headers"]; ok {
					ho, ok := asO(h)
					if !ok {
						return "interaction", id + ".response.headers is not an object"
					}
					if c, m := validateSchema(ho.Vals["schema"], id+"/response/headers"); c != "" {
						return c, m
					}
				}
			}
		}
	case "json-rpc-2.0":
		if _, ok := asS(i.Vals["method"]); !ok {
			return "interaction", "interaction " + id + " lacks method"
		}
		for _, k := range []string{"params", "result"} {
			if c, m := sub(k); c != "" {
				return c, m
			}
		}
	default:
		return "interaction", "interaction " + id + " has protocol " + proto
	}
	return "", ""
}

func validateBody(v any, where string) (string, string) {
	b, ok := asO(v)
	if !ok {
		return "body", where + " is missing or not an object"
	}
	if f, _ := asS(b.Vals["format"]); f != "json" && f != "plainString" && f != "binary" {
		return "body", where + " has format " + f
	}
	return validateSchema(b.Vals["schema"], where)
}

func validateSchema(v any, where string) (string, string) {
	s, ok := asO(v)
	if !ok {
		return "schema", where + ": schema is missing or not an object"
	}
	n, _ := asS(s.Vals["notation"])
	switch n {
	case "jsight":
		return validateContent(s.Vals["content"], where+"/content")
	case "regex":
		if _, ok := asS(s.Vals["content"]); !ok {
			return "schema", where + ": regex schema without content string"
		}
	case "any", "empty":
		if _, ok := s.Vals["content"]; ok {
			return "schema", where + ": " + n + " schema with content"
		}
	default:
		return "schema", where + ": notation " + n
	}
	return "", ""
}

var tokenTypes = map[string]bool{"object": true, "array": true, "string": true, "number": true, "boolean": true, "null": true, "reference": true, "annotation": true}

func validateContent(v any, where string) (string, string) {
	c, ok := asO(v)
	if !ok {
		return "content", where + " is missing or not an object"
	}
	tt, _ := asS(c.Vals["tokenType"])
	if !tokenTypes[tt] {
		return "content", where + ": tokenType " + tt
	}
	if _, ok := asS(c.Vals["type"]); !ok {
		return "content", where + ": no type"
	}
	if _, ok := c.Vals["optional"].(bool); !ok {
		return "content", where + ": no boolean optional"
	}
	kids, hasKids := c.Vals["children"]
	_, hasScalar := c.Vals["scalarValue"]
	switch tt {
	case "object", "array":
		ka, ok := asA(kids)
		if !hasKids || !ok {
			return "content-children", where + ": " + tt + " without children array"
		}
		if hasScalar {
			return "content-children", where + ": " + tt + " with scalarValue"
		}
		for i, k := range ka {
			if cl, m := validateContent(k, fmt.Sprintf("%s/%d", where, i)); cl != "" {
				return cl, m
			}
			if tt == "object" {
				ko, _ := asO(k)
				if _, ok := asS(ko.Vals["key"]); !ok {
					return "content-key", fmt.Sprintf("%s/%d: object property without key", where, i)
				}
			}
		}
	default:
		if !hasScalar {
			return "content-scalar", where + ": scalar " + tt + " without scalarValue"
		}
		if hasKids {
			return "content-scalar", where + ": scalar " + tt + " with children"
		}
	}
	return "", ""
}

var pathParamRe = regexp.MustCompile(`\{([^/{}]*)\}`)

// ValidateCrossRefs checks the C05 closure/uniqueness conditions; returns (clause, message) or "".
func ValidateCrossRefs(doc any) (string, string) {
	root, ok := asO(doc)
	if !ok {
		return "root", "not an object"
	}
	if v, _ := asS(root.Vals["jsight"]); v != "0.3" {
		return "jsight-version", "jsight is " + v
	}
	tags, _ := asO(root.Vals["tags"])
	inter, _ := asO(root.Vals["interactions"])
	types, _ := asO(root.Vals["userTypes"])
	enums, _ := asO(root.Vals["userEnums"])
	if tags == nil || inter == nil {
		return "root", "missing tags/interactions"
	}
	// tag -> protocol -> id -> count
	listed := map[string]map[string]map[string]int{}
	for _, tn := range tags.Keys {
		t, _ := asO(tags.Vals[tn])
		if n, _ := asS(t.Vals["name"]); n != tn {
			return "tag-name", "tag key " + tn + " has name " + n
		}
		listed[tn] = map[string]map[string]int{}
		gg, _ := asA(t.Vals["interactionGroups"])
		seenProto := map[string]bool{}
		for _, g := range gg {
			gOb, _ := asO(g)
			p, _ := asS(gOb.Vals["protocol"])
			if seenProto[p] {
				return "tag-group-dup", "tag " + tn + " has two groups for " + p
			}
			seenProto[p] = true
			listed[tn][p] = map[string]int{}
			ii, _ := asA(gOb.Vals["interactions"])
			for _, i := range ii {
				id, _ := asS(i)
				listed[tn][p][id]++
				if _, ok := inter.Vals[id]; !ok {
					return "tag-lists-unknown-interaction", "tag " + tn + " lists " + id + " which is not an interaction"
				}
			}
		}
	}
	for _, id := range inter.Keys {
		i, _ := asO(inter.Vals[id])
		iid, _ := asS(i.Vals["id"])
		proto, _ := asS(i.Vals["protocol"])
		path, _ := asS(i.Vals["path"])
		method, _ := asS(i.Vals["httpMethod"])
		if proto != "http" {
			method, _ = asS(i.Vals["method"])
		}
		if iid != id || id != proto+" "+method+" "+path {
			return "interaction-id", fmt.Sprintf("key %q, id %q, fields %q", id, iid, proto+" "+method+" "+path)
		}
		ta, _ := asA(i.Vals["tags"])
		mine := map[string]bool{}
		for _, t := range ta {
			tn, _ := asS(t)
			if mine[tn] {
				return "interaction-tag-dup", id + " names tag " + tn + " twice"
			}
			mine[tn] = true
			if _, ok := tags.Vals[tn]; !ok {
				return "interaction-tag-undefined", id + " names undefined tag " + tn
			}
			if listed[tn][proto][id] != 1 {
				return "tag-does-not-list-interaction-once", fmt.Sprintf("tag %s lists %s %d times under %s", tn, id, listed[tn][proto][id], proto)
			}
		}
		for tn, byProto := range listed {
			for p, ids := range byProto {
				if ids[id] > 0 && (!mine[tn] || p != proto) {
					return "tag-lists-foreign-interaction", fmt.Sprintf("tag %s lists %s under %s, but the interaction does not name it", tn, id, p)
				}
			}
		}
		if proto == "http" {
			var want []string
			for _, m := range pathParamRe.FindAllStringSubmatch(path, -1) {
				// only whole segments are parameters
				want = append(want, m[1])
			}
			want = wholeSegmentParams(path)
			var got []string
			if pv, ok := asO(i.Vals["pathVariables"]); ok {
				kids, _ := asA(oj.Get(pv, "schema", "content", "children"))
				for _, k := range kids {
					ko, _ := asO(k)
					key, _ := asS(ko.Vals["key"])
					got = append(got, key)
				}
			}
			if strings.Join(want, "\x00") != strings.Join(got, "\x00") {
				return "path-variables", fmt.Sprintf("%s: path parameters %v, pathVariables %v", id, want, got)
			}
			rs, _ := asA(i.Vals["responses"])
			for _, r := range rs {
				ro, _ := asO(r)
				code, _ := asS(ro.Vals["code"])
				if len(code) != 3 || code < "100" || code > "599" {
					return "response-code", id + " has response code " + code
				}
				if _, ok := asO(ro.Vals["body"]); !ok {
					return "response-without-body", id + " response " + code + " has no body"
				}
			}
		}
	}
	// used types / enums are defined
	var bad string
	var walk func(v any)
	walk = func(v any) {
		switch x := v.(type) {
		case *O:
			for _, k := range x.Keys {
				if k == "usedUserTypes" || k == "usedUserEnums" {
					arr, _ := asA(x.Vals[k])
					for _, n := range arr {
						name, _ := asS(n)
						def := types
						if k == "usedUserEnums" {
							def = enums
						}
						if def == nil || def.Vals[name] == nil {
							bad = k + " names " + name + " which is not defined"
						}
					}
				}
				walk(x.Vals[k])
			}
		case []any:
			for _, e := range x {
				walk(e)
			}
		}
	}
	walk(root)
	if bad != "" {
		return "used-name-undefined", bad
	}
	return "", ""
}

func wholeSegmentParams(path string) []string {
	var out []string
	for _, s := range strings.Split(path, "/") {
		if len(s) >= 2 && s[0] == '{' && s[len(s)-1] == '}' {
			out = append(out, s[1:len(s)-1])
		}
	}
	return out
}
