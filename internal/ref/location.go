package ref

import "strings"

// Locate computes, independently of the implementation, the 1-based line and column (in bytes) of index in
// content, and the text of that line with leading blanks removed (200-byte rule as documented: a longer line is cut
// to its first 197 bytes followed by "..."). The file must use one line-ending convention (LF, CRLF or CR).
func Locate(content string, index int) (line, col int, quote string) {
	term := "\n"
	switch {
	case strings.Contains(content, "\r\n"):
		term = "\r\n"
	case strings.Contains(content, "\n"):
		term = "\n"
	case strings.Contains(content, "\r"):
		term = "\r"
	}
	if index > len(content) {
		index = len(content)
	}
	line = 1
	start := 0
	for {
		i := strings.Index(content[start:], term)
		if i < 0 {
			break
		}
		end := start + i + len(term) // first byte of the next line
		// the terminator belongs to the line it ends
		if index < end {
			break
		}
		if end >= len(content) && index >= len(content) {
			// index == len(content): position after the last terminator is the (empty) next line
			line++
			start = end
			break
		}
		line++
		start = end
	}
	col = index - start + 1
	le := strings.Index(content[start:], term)
	lineEnd := len(content)
	if le >= 0 {
		lineEnd = start + le
	}
	text := content[start:lineEnd]
	if len(text) > 200 {
		text = strings.TrimLeft(text[:197], " \t") + "..."
	} else {
		text = strings.TrimLeft(text, " \t")
	}
	return line, col, text
}
