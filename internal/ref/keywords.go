// Package ref holds the small reference models, written from the JSight API 0.3 language rules,
// against which the implementation is compared transition by transition.
package ref

// Keywords are the 30 directive keywords of JSight API 0.3 (response codes are separate).
var Keywords = []string{
	"JSIGHT", "INFO", "Title", "Version", "Description", "SERVER", "BaseUrl", "URL",
	"GET", "POST", "PUT", "PATCH", "DELETE", "Body", "Request", "Path", "Headers", "Query",
	"TYPE", "ENUM", "MACRO", "PASTE", "INCLUDE", "Protocol", "Method", "Params", "Result",
	"TAG", "Tags", "OperationId",
}

// IsResponseCode: exactly three digits, 100..599.
func IsResponseCode(w string) bool {
	return len(w) == 3 && w[0] >= '1' && w[0] <= '5' && w[1] >= '0' && w[1] <= '9' && w[2] >= '0' && w[2] <= '9'
}

func IsKeyword(w string) bool {
	for _, k := range Keywords {
		if k == w {
			return true
		}
	}
	return IsResponseCode(w)
}

// IsKeywordPrefix: w is a proper, non-empty prefix of some keyword or response code.
func IsKeywordPrefix(w string) bool {
	if w == "" {
		return false
	}
	for _, k := range Keywords {
		if len(w) < len(k) && k[:len(w)] == w {
			return true
		}
	}
	if len(w) < 3 {
		if w[0] < '1' || w[0] > '5' {
			return false
		}
		for i := 1; i < len(w); i++ {
			if w[i] < '0' || w[i] > '9' {
				return false
			}
		}
		return true
	}
	return false
}

// TerminatorOK: a keyword must be followed by blank, tab, LF, CR, end of file (sym 256), '#' or '/'.
func TerminatorOK(sym int) bool {
	switch sym {
	case ' ', '\t', '\n', '\r', '#', '/', 256:
		return true
	}
	return false
}
