package ref

import (
	"fmt"
	"strings"
)

// ValidateOpenAPI checks the structural conditions C17 names on a parsed OpenAPI document, given the parsed JDoc
// document of the same catalog (for the list of interactions and user types). Returns (clause, message) or "".
func ValidateOpenAPI(oas any, jdoc any) (string, string) {
	root, ok := asO(oas)
	if !ok {
		return "root", "OpenAPI document is not an object"
	}
	if v, _ := asS(root.Vals["openapi"]); !strings.HasPrefix(v, "3.0") {
		return "openapi", "openapi version " + v
	}
	if _, ok := asO(root.Vals["info"]); !ok {
		return "info", "no info object"
	}
	paths, ok := asO(root.Vals["paths"])
	if !ok {
		return "paths", "no paths object"
	}
	comps := map[string]bool{}
	if cs, ok := asO(GetPath(root, "components", "schemas")); ok {
		for _, k := range cs.Keys {
			comps[k] = true
		}
	}
	jd, _ := asO(jdoc)
	if jd != nil {
		inter, _ := asO(jd.Vals["interactions"])
		if inter != nil {
			for _, id := range inter.Keys {
				i, _ := asO(inter.Vals[id])
				if p, _ := asS(i.Vals["protocol"]); p != "http" {
					continue
				}
				path, _ := asS(i.Vals["path"])
				m, _ := asS(i.Vals["httpMethod"])
				pi, ok := asO(paths.Vals[path])
				if !ok {
					return "interaction-missing-path", fmt.Sprintf("interaction %s: paths has no %q", id, path)
				}
				op, ok := asO(pi.Vals[strings.ToLower(m)])
				if !ok {
					return "interaction-missing-operation", fmt.Sprintf("interaction %s: paths[%q] has no %s", id, path, strings.ToLower(m))
				}
				for _, pn := range wholeSegmentParams(path) {
					if !declaresPathParam(pi, pn) && !declaresPathParam(op, pn) {
						return "path-parameter-undeclared", fmt.Sprintf("interaction %s: {%s} is not declared as a required path parameter", id, pn)
					}
				}
				if rs, ok := asO(op.Vals["responses"]); ok {
					for _, code := range rs.Keys {
						if code != "default" && !(len(code) == 3 && code >= "100" && code <= "599") {
							return "response-key", fmt.Sprintf("interaction %s: response key %q", id, code)
						}
					}
				}
			}
		}
		if ut, ok := asO(jd.Vals["userTypes"]); ok {
			for _, n := range ut.Keys {
				if !comps[strings.TrimPrefix(n, "@")] && !comps[n] {
					return "user-type-not-a-component", "user type " + n + " is not in components.schemas"
				}
			}
		}
	}
	// every $ref resolves
	var bad string
	var walk func(v any)
	walk = func(v any) {
		switch x := v.(type) {
		case *O:
			for _, k := range x.Keys {
				if k == "$ref" {
					r, _ := asS(x.Vals[k])
					const pre = "#/components/schemas/"
					if !strings.HasPrefix(r, pre) || !comps[strings.TrimPrefix(r, pre)] {
						bad = "$ref " + r + " does not resolve into components.schemas"
					}
				}
				walk(x.Vals[k])
			}
		case []any:
			for _, e := range x {
				walk(e)
			}
		}
	}
	walk(root)
	if bad != "" {
		return "dangling-ref", bad
	}
	return "", ""
}

func declaresPathParam(o *O, name string) bool {
	ps, _ := asA(o.Vals["parameters"])
	for _, p := range ps {
		po, ok := asO(p)
		if !ok {
			continue
		}
		n, _ := asS(po.Vals["name"])
		in, _ := asS(po.Vals["in"])
		req, _ := po.Vals["required"].(bool)
		if n == name && in == "path" && req {
			return true
		}
	}
	return false
}

func GetPath(v any, keys ...string) any {
	for _, k := range keys {
		o, ok := v.(*O)
		if !ok {
			return nil
		}
		v = o.Vals[k]
	}
	return v
}
