package ref

// Reference context automaton for JSight API 0.3 directive nesting.
// The allowed-context table is a frozen copy of the language's table; the resolution rules are the ones
// the language states: attach to the nearest enclosing open directive that admits the kind; implicit
// contexts close on the way; an explicit context never closes silently; a path-carrying HTTP method inside
// an implicit URL starts a new root (inside an explicit URL it is an error); ')' closes the innermost
// explicit context; an unclosed '(' at end of input is an error.

var methods = []string{"GET", "POST", "PUT", "PATCH", "DELETE"}

var methodKids = []string{"Description", "Request", "CODE", "Path", "Query", "PASTE", "Tags", "OperationId"}

// Kinds are the 31 directive kinds ("CODE" stands for any HTTP response code keyword).
var Kinds = []string{
	"JSIGHT", "INFO", "Title", "Version", "Description", "SERVER", "BaseUrl", "URL",
	"GET", "POST", "PUT", "PATCH", "DELETE", "Body", "Request", "CODE", "Path", "Headers", "Query",
	"TYPE", "ENUM", "MACRO", "PASTE", "INCLUDE", "Protocol", "Method", "Params", "Result", "TAG", "Tags", "OperationId",
}

var rootAllowed = set("JSIGHT", "INFO", "SERVER", "URL", "GET", "POST", "PUT", "PATCH", "DELETE", "TYPE", "ENUM", "MACRO", "PASTE", "TAG")

var allowed = map[string]map[string]bool{
	"URL":     set("GET", "POST", "PUT", "PATCH", "DELETE", "Path", "PASTE", "Protocol", "Method", "Tags"),
	"GET":     set(methodKids...),
	"POST":    set(methodKids...),
	"PUT":     set(methodKids...),
	"PATCH":   set(methodKids...),
	"DELETE":  set(methodKids...),
	"CODE":    set("Body", "Headers", "PASTE"),
	"Request": set("Body", "Headers", "PASTE"),
	"INFO":    set("Title", "Version", "Description", "PASTE"),
	"SERVER":  set("BaseUrl", "PASTE"),
	"Method":  set("Description", "Params", "Result", "Tags"),
	"TAG":     set("Description"),
	"MACRO": set("INFO", "Title", "Version", "Description", "SERVER", "BaseUrl", "URL", "GET", "POST", "PUT", "PATCH",
		"DELETE", "Body", "Request", "CODE", "Path", "Headers", "Query", "TYPE", "ENUM", "PASTE"),
}

func set(ss ...string) map[string]bool {
	m := map[string]bool{}
	for _, s := range ss {
		m[s] = true
	}
	return m
}

func IsMethodKind(k string) bool {
	for _, m := range methods {
		if m == k {
			return true
		}
	}
	return false
}

// Admits: may a directive of kind child be placed directly in the context of parent ("" = root)?
func Admits(parent, child string) bool {
	if parent == "" {
		return rootAllowed[child]
	}
	return allowed[parent][child]
}

// Sym is one input symbol: a directive (kind, explicit context?, own path?) or a closing parenthesis.
type Sym struct {
	Kind     string `json:"k,omitempty"`
	Explicit bool   `json:"x,omitempty"`
	HasPath  bool   `json:"p,omitempty"`
	Close    bool   `json:"c,omitempty"`
	// Via: "include" = the directive is written in a file of its own that is INCLUDEd at this place (transparent for the
	// automaton: INCLUDE does not change where a directive attaches)
	Via string `json:"via,omitempty"`
}

// Ctx is one open context; Node is the index of the directive that opened it (for tree reconstruction).
type Ctx struct {
	Kind     string
	Explicit bool
	Node     int
}

// Verdicts
const (
	OK               = ""
	IncorrectContext = "incorrect-context"
	IncorrectCtxPath = "incorrect-context-path" // path-carrying method inside an explicit URL
	NothingToClose   = "nothing-to-close"
	NotClosed        = "not-closed"
)

// Automaton state: the chain of open contexts, outermost first.
type Automaton struct {
	Chain   []Ctx
	Parents []int // parent node index per accepted directive (-1 = root)
	n       int
}

func (a *Automaton) Clone() *Automaton {
	return &Automaton{Chain: append([]Ctx(nil), a.Chain...), Parents: append([]int(nil), a.Parents...), n: a.n}
}

// Step consumes one symbol. On a non-OK verdict the state is unchanged.
func (a *Automaton) Step(s Sym) string {
	if s.Close {
		for i := len(a.Chain) - 1; i >= 0; i-- {
			if a.Chain[i].Explicit {
				a.Chain = a.Chain[:i]
				return OK
			}
		}
		return NothingToClose
	}
	i := len(a.Chain)
	for {
		if i == 0 {
			if !Admits("", s.Kind) {
				return IncorrectContext
			}
			a.push(s, -1, 0)
			return OK
		}
		top := a.Chain[i-1]
		if Admits(top.Kind, s.Kind) {
			if top.Kind == "URL" && IsMethodKind(s.Kind) && s.HasPath {
				// a new root leaves every open context behind, which an explicit context (the URL itself, or a MACRO
				// around it) does not allow: it is closed by its parenthesis only
				for _, c := range a.Chain[:i] {
					if c.Explicit {
						return IncorrectCtxPath
					}
				}
				a.push(s, -1, 0) // new root
				return OK
			}
			a.push(s, top.Node, i)
			return OK
		}
		if top.Explicit {
			return IncorrectContext
		}
		i--
	}
}

func (a *Automaton) push(s Sym, parent int, keep int) {
	a.Chain = append(a.Chain[:keep:keep], Ctx{Kind: s.Kind, Explicit: s.Explicit, Node: a.n})
	a.Parents = append(a.Parents, parent)
	a.n++
}

// End is the end-of-input check.
func (a *Automaton) End() string {
	for _, c := range a.Chain {
		if c.Explicit {
			return NotClosed
		}
	}
	return OK
}

// Key is the canonical form of the state (what future behaviour depends on).
func (a *Automaton) Key() string {
	b := make([]byte, 0, 32)
	for _, c := range a.Chain {
		b = append(b, c.Kind...)
		if c.Explicit {
			b = append(b, '(')
		}
		b = append(b, '>')
	}
	return string(b)
}

// ChainNames returns the chain innermost first, in the format of core.VerifContextChain().
func (a *Automaton) ChainNames(name func(kind string) string) []string {
	var out []string
	for i := len(a.Chain) - 1; i >= 0; i-- {
		n := name(a.Chain[i].Kind)
		if a.Chain[i].Explicit {
			n += "("
		}
		out = append(out, n)
	}
	return out
}
