// Package dt: directive trees (the directive-level view of a JSight document), their text renderings in
// every layout within a deviation bound, and the position map used as constructive oracle.
package dt

import (
	"strings"
)

// Body kinds
const (
	NoBody = iota
	SchemaBody
	RegexBody
	EnumBody
	TextBody
)

type Node struct {
	Kw     string   // keyword as written (e.g. "GET", "200", "Body")
	Params []string // parameter values (unquoted)
	Ann    string   // annotation text ("" = none)
	Body   int
	// BodyAlts: alternative renderings of the body (each a list of lines, relative indentation); first is canonical.
	BodyAlts [][]string
	Kids     []*Node
	ID       string // model element id (for expected error locations)

	// layout decided
	Explicit   bool
	NoExplicit bool // never offer the explicit-context alternative for this node

	// INCLUDE nodes: the included file
	Inc *File
}

type File struct {
	Name  string
	Nodes []*Node
}

func (n *Node) Clone() *Node {
	c := *n
	c.Params = append([]string(nil), n.Params...)
	c.Kids = make([]*Node, len(n.Kids))
	for i, k := range n.Kids {
		c.Kids[i] = k.Clone()
	}
	if n.Inc != nil {
		c.Inc = n.Inc.Clone()
	}
	return &c
}

func (f *File) Clone() *File {
	c := &File{Name: f.Name, Nodes: make([]*Node, len(f.Nodes))}
	for i, k := range f.Nodes {
		c.Nodes[i] = k.Clone()
	}
	return c
}

// N builds a node.
func N(kw string, params ...string) *Node { return &Node{Kw: kw, Params: params} }

func (n *Node) WithAnn(a string) *Node { n.Ann = a; return n }
func (n *Node) WithID(id string) *Node { n.ID = id; return n }
func (n *Node) Add(k ...*Node) *Node   { n.Kids = append(n.Kids, k...); return n }
func (n *Node) WithBody(kind int, alts ...[]string) *Node {
	n.Body = kind
	n.BodyAlts = alts
	return n
}

func Lines(s string) []string { return strings.Split(s, "\n") }

// Kind returns the directive kind name used by the reference automaton (response codes collapse to "CODE").
func (n *Node) Kind() string {
	if len(n.Kw) == 3 && n.Kw[0] >= '1' && n.Kw[0] <= '9' {
		return "CODE"
	}
	return n.Kw
}

func IsMethod(kw string) bool {
	switch kw {
	case "GET", "POST", "PUT", "PATCH", "DELETE":
		return true
	}
	return false
}

// HasPath: an HTTP method node that carries its own path parameter.
func (n *Node) HasPath() bool { return IsMethod(n.Kw) && len(n.Params) > 0 }

// Count returns the number of directive nodes in the forest (following includes).
func Count(nn []*Node) int {
	c := 0
	for _, n := range nn {
		c++
		c += Count(n.Kids)
		if n.Inc != nil {
			c += Count(n.Inc.Nodes)
		}
	}
	return c
}

// Walk visits nodes in document order (includes are entered in place).
func Walk(nn []*Node, f func(n *Node, depth int)) { walk(nn, 0, f) }

func walk(nn []*Node, d int, f func(n *Node, depth int)) {
	for _, n := range nn {
		f(n, d)
		if n.Inc != nil {
			walk(n.Inc.Nodes, d, f)
		}
		walk(n.Kids, d+1, f)
	}
}
