package dt

import "verif/internal/ref"

// Linearise flattens a forest (includes inlined) into automaton symbols, and returns the intended parent of each
// directive (index into the directive sequence, -1 = root). explicitOf reports the explicit flag actually rendered.
func Linearise(nn []*Node, explicitOf func(*Node) bool) (syms []ref.Sym, parents []int, nodes []*Node) {
	var rec func(nn []*Node, parent int)
	rec = func(nn []*Node, parent int) {
		for _, n := range nn {
			if n.Inc != nil {
				rec(n.Inc.Nodes, parent)
				continue
			}
			idx := len(nodes)
			nodes = append(nodes, n)
			parents = append(parents, parent)
			ex := explicitOf(n)
			syms = append(syms, ref.Sym{Kind: n.Kind(), Explicit: ex, HasPath: n.HasPath()})
			rec(n.Kids, idx)
			if ex {
				syms = append(syms, ref.Sym{Close: true})
			}
		}
	}
	rec(nn, -1)
	return
}

// Legal reports whether the reference automaton derives exactly the intended tree from the forest's text order.
// A top-level path-carrying method that follows an implicit URL legitimately has parent -1 in both.
func Legal(nn []*Node, explicitOf func(*Node) bool) bool {
	syms, parents, _ := Linearise(nn, explicitOf)
	a := &ref.Automaton{}
	for _, s := range syms {
		if a.Step(s) != ref.OK {
			return false
		}
	}
	if a.End() != ref.OK {
		return false
	}
	if len(a.Parents) != len(parents) {
		return false
	}
	for i := range parents {
		if a.Parents[i] != parents[i] {
			return false
		}
	}
	return true
}
