package dt

import (
	"fmt"
	"strings"
)

// Site is one layout choice point met while rendering.
type Site struct {
	Kind  string
	Arity int
}

// Layout drives one rendering: global options plus a prefix of per-site choices (0 = canonical everywhere after it).
type Layout struct {
	EOL     string // "\n", "\r\n", "\r"
	Unit    string // indentation unit
	FinalNL bool
	Choices []int
	// Only restricts which site kinds may deviate (nil = all).
	Only map[string]bool

	pos   int
	Trace []Site
	Taken []int
}

func Canon() *Layout { return &Layout{EOL: "\n", Unit: "  ", FinalNL: true} }

// Choose takes the next layout choice (0 = canonical).
func (l *Layout) Choose(kind string, n int) int {
	if n <= 1 {
		return 0
	}
	if l.Only != nil && !l.Only[kind] {
		return 0
	}
	k := 0
	if l.pos < len(l.Choices) {
		k = l.Choices[l.pos]
		if k >= n {
			panic(fmt.Sprintf("layout replay divergence at site %d (%s): choice %d of %d", l.pos, kind, k, n))
		}
	}
	l.pos++
	l.Trace = append(l.Trace, Site{kind, n})
	l.Taken = append(l.Taken, k)
	return k
}

// Lexeme expected in a rendered file.
type XLex struct {
	Type  string // K P A S T E ( )
	Begin int
	End   int
	Text  string
}

// Loc is where a model element's keyword was written.
type Loc struct {
	File  string
	Line  int // 1-based
	Index int
}

type Rendered struct {
	Files map[string]string
	Root  string
	Lex   map[string][]XLex // per file
	Locs  map[string]Loc    // by Node.ID ("" ids are not recorded); duplicate IDs get "#2", "#3" suffixes
	// BodyLocs: where the body of the element starts
	BodyLocs map[string]Loc
	// Explicit: nodes rendered with an explicit ( ) context
	Explicit map[*Node]bool
}

type fileBuf struct {
	name string
	b    strings.Builder
	line int
	lex  []XLex
	// afterText: the last thing written was an unparenthesised Description text (comments/trailing blanks are text there)
	afterText bool
	// afterSchema: the last thing written was a schema or enum body; the lines that follow are still looked at by the schema
	// library, which knows "# comment" and "### block ###" but not a bare "##"
	afterSchema bool
}

type renderer struct {
	l     *Layout
	out   *Rendered
	idSeq map[string]int
}

// Reset restarts the choice sequence (call before building a tree under this layout).
func (l *Layout) Reset() { l.pos, l.Trace, l.Taken = 0, nil, nil }

// Cost is the number of non-canonical choices taken so far.
func (l *Layout) Cost() int {
	c := 0
	for _, t := range l.Taken {
		if t != 0 {
			c++
		}
	}
	return c
}

// Render writes the forest; it continues the layout's choice sequence (call Reset first when starting afresh).
func Render(root *File, l *Layout) *Rendered {
	r := &renderer{l: l, out: &Rendered{Files: map[string]string{}, Root: root.Name, Lex: map[string][]XLex{}, Locs: map[string]Loc{}, BodyLocs: map[string]Loc{}, Explicit: map[*Node]bool{}}, idSeq: map[string]int{}}
	r.file(root)
	return r.out
}

func (r *renderer) file(f *File) {
	if _, done := r.out.Files[f.Name]; done {
		return // same piece included from several places: rendered once
	}
	fb := &fileBuf{name: f.Name, line: 1}
	r.out.Files[f.Name] = "" // reserve
	for _, n := range f.Nodes {
		r.node(fb, n, 0)
	}
	s := fb.b.String()
	if !r.l.FinalNL {
		s = strings.TrimSuffix(s, r.l.EOL)
	}
	r.out.Files[f.Name] = s
	r.out.Lex[f.Name] = fb.lex
}

func (fb *fileBuf) w(s string) {
	fb.b.WriteString(s)
}

func (r *renderer) eol(fb *fileBuf) {
	fb.w(r.l.EOL)
	fb.line++
}

func quote(p string) string {
	p = strings.ReplaceAll(p, `\`, `\\`)
	p = strings.ReplaceAll(p, `"`, `\"`)
	return `"` + p + `"`
}

func needsQuote(p string) bool {
	return p == "" || strings.ContainsAny(p, " \t#\"") || strings.HasPrefix(p, "//") || strings.HasPrefix(p, "/*")
}

func (r *renderer) recordLoc(m map[string]Loc, id string, loc Loc) {
	if id == "" {
		return
	}
	key := id
	if _, ok := m[key]; ok {
		r.idSeq[id]++
		key = fmt.Sprintf("%s#%d", id, r.idSeq[id]+1)
	}
	m[key] = loc
}

func (r *renderer) node(fb *fileBuf, n *Node, depth int) {
	l := r.l
	ind := strings.Repeat(l.Unit, depth)
	// separator before the directive
	if fb.afterText {
		if l.Choose("sep-after-text", 2) == 1 {
			r.eol(fb)
		}
	} else {
		nsep := 7
		if fb.afterSchema {
			nsep = 5
		}
		switch l.Choose("sep", nsep) {
		case 6:
			fb.w(ind + "# one # two # three") // a line comment with more hash signs in it
			r.eol(fb)
		case 5:
			fb.w(ind + "##") // a comment that consists of two hash signs only
			r.eol(fb)
		case 1:
			r.eol(fb)
		case 2:
			fb.w(ind + "# c")
			r.eol(fb)
		case 3:
			fb.w(ind + "### block")
			r.eol(fb)
			fb.w("comment ###")
			r.eol(fb)
		case 4:
			fb.w(ind + "  \t")
			r.eol(fb)
		}
	}
	fb.afterText = false
	fb.afterSchema = false
	fb.w(ind)
	// keyword
	kb := fb.b.Len()
	fb.w(n.Kw)
	fb.lex = append(fb.lex, XLex{"K", kb, fb.b.Len() - 1, n.Kw})
	r.recordLoc(r.out.Locs, n.ID, Loc{File: fb.name, Line: fb.line, Index: kb})
	// parameters (the two parameters of TYPE and Query may be written in either order)
	params := n.Params
	if len(params) == 2 && (n.Kw == "TYPE" || n.Kw == "Query") && l.Choose("paramorder", 2) == 1 {
		params = []string{params[1], params[0]}
	}
	for _, p := range params {
		if l.Choose("blank", 2) == 1 {
			fb.w(" \t ")
		} else {
			fb.w(" ")
		}
		txt := p
		if needsQuote(p) || l.Choose("quote", 2) == 1 {
			txt = quote(p)
		}
		pb := fb.b.Len()
		fb.w(txt)
		fb.lex = append(fb.lex, XLex{"P", pb, fb.b.Len() - 1, txt})
	}
	// annotation
	annStyle := 0
	if n.Ann != "" {
		annStyle = l.Choose("ann", 5)
		// a keyword without parameters may be followed by its annotation without a blank
		glue := " "
		if len(params) == 0 && l.Choose("annglue", 2) == 1 {
			glue = ""
		}
		switch annStyle {
		case 0:
			fb.w(glue + "//")
			ab := fb.b.Len()
			fb.w(" " + n.Ann)
			fb.lex = append(fb.lex, XLex{"A", ab, fb.b.Len() - 1, " " + n.Ann})
		case 1:
			fb.w(glue + "/*")
			ab := fb.b.Len()
			fb.w(" " + n.Ann + " ")
			fb.lex = append(fb.lex, XLex{"A", ab, fb.b.Len() - 1, " " + n.Ann + " "})
			fb.w("*/")
		case 3: // no blank before the closing mark
			fb.w(" /*")
			ab := fb.b.Len()
			fb.w(" " + n.Ann)
			fb.lex = append(fb.lex, XLex{"A", ab, fb.b.Len() - 1, " " + n.Ann})
			fb.w("*/")
		case 4: // no blank after the opening mark
			fb.w(" /*")
			ab := fb.b.Len()
			fb.w(n.Ann + " ")
			fb.lex = append(fb.lex, XLex{"A", ab, fb.b.Len() - 1, n.Ann + " "})
			fb.w("*/")
		case 2:
			fb.w(" /*")
			ab := fb.b.Len()
			fb.w(" " + n.Ann)
			r.eol(fb)
			fb.w(ind + "   ")
			fb.lex = append(fb.lex, XLex{"A", ab, fb.b.Len() - 1, ""})
			fb.w("*/")
		}
	}
	// a comment after a block annotation on the keyword line
	if n.Ann != "" && (annStyle == 1 || annStyle == 3 || annStyle == 4) {
		if l.Choose("trail", 2) == 1 {
			fb.w(" # c")
		}
	}
	// trailing blanks / comment on the keyword line
	if annStyle == 0 {
		switch l.Choose("trail", 3) {
		case 1:
			if n.Ann != "" {
				// blanks at the end of a // annotation belong to the annotation lexeme (trimmed later by the catalog)
				fb.w(" \t")
				last := &fb.lex[len(fb.lex)-1]
				last.End = fb.b.Len() - 1
				last.Text += " \t"
			} else {
				fb.w(" \t")
			}
		case 2:
			if n.Ann != "" {
				fb.w("# c")
			} else {
				fb.w(" # c")
			}
		}
	}
	r.eol(fb)
	// INCLUDE: render the file, nothing else
	if n.Inc != nil {
		r.file(n.Inc)
		return
	}
	explicit := n.Explicit
	if !explicit && !n.NoExplicit && n.Body != TextBody {
		explicit = l.Choose("explicit", 2) == 1
	}
	if explicit {
		r.out.Explicit[n] = true
		fb.w(ind)
		ob := fb.b.Len()
		fb.w("(")
		fb.lex = append(fb.lex, XLex{"(", ob, ob, "("})
		r.eol(fb)
	}
	// body
	if n.Body != NoBody {
		alt := 0
		if len(n.BodyAlts) > 1 {
			alt = l.Choose("body", len(n.BodyAlts))
		}
		lines := n.BodyAlts[alt]
		if n.Body != TextBody && l.Choose("prebody", 2) == 1 {
			r.eol(fb)
		}
		bind := strings.Repeat(l.Unit, depth+1)
		if n.Body == TextBody {
			// free text; optional own parentheses
			paren := l.Choose("textparen", 2) == 1
			tb := fb.b.Len()
			if paren {
				fb.w(ind + "(")
				r.eol(fb)
			}
			var textStart int
			for i, ln := range lines {
				fb.w(bind)
				if i == 0 {
					textStart = fb.b.Len()
				}
				fb.w(ln)
				if i == len(lines)-1 && !paren {
					// end of text lexeme is fuzzy (trimmed by the catalog); record the extent of the last text byte
					fb.lex = append(fb.lex, XLex{"T", textStart, fb.b.Len() - 1, strings.Join(lines, "\n")})
				}
				r.eol(fb)
			}
			if paren {
				fb.w(ind)
				fb.w(")")
				fb.lex = append(fb.lex, XLex{"T", tb, fb.b.Len() - 1, strings.Join(lines, "\n")})
				r.eol(fb)
			} else {
				fb.afterText = true
			}
			r.recordLoc(r.out.BodyLocs, n.ID, Loc{File: fb.name, Line: fb.line - len(lines), Index: textStart})
		} else {
			var bb int
			for i, ln := range lines {
				fb.w(bind)
				if i == 0 {
					bb = fb.b.Len()
					r.recordLoc(r.out.BodyLocs, n.ID, Loc{File: fb.name, Line: fb.line, Index: bb})
				}
				fb.w(ln)
				if i == len(lines)-1 {
					fb.afterSchema = n.Body == SchemaBody || n.Body == EnumBody
					t := map[int]string{SchemaBody: "S", RegexBody: "T", EnumBody: "E"}[n.Body]
					fb.lex = append(fb.lex, XLex{t, bb, fb.b.Len() - 1, ""})
					// trailing blanks / a comment on the last line of the body
					if !strings.Contains(ln, "//") {
						switch l.Choose("postbody", 3) {
						case 1:
							fb.w("  \t")
						case 2:
							fb.w(" # c")
						}
					}
				}
				r.eol(fb)
			}
		}
	}
	for _, k := range n.Kids {
		r.node(fb, k, depth+1)
	}
	if explicit {
		if fb.afterText {
			// a ')' right after free text would be swallowed by the text rules; separate with nothing: the text scanner
			// treats ')' at line start as the end of the text and as context close.
			fb.afterText = false
		}
		fb.w(ind)
		cb := fb.b.Len()
		fb.w(")")
		fb.lex = append(fb.lex, XLex{")", cb, cb, ")"})
		r.eol(fb)
	}
}

// EnumLayouts calls fn for every layout of root within the deviation bound (number of non-canonical per-site choices),
// using the stateless-exploration idiom: render with a prefix of choices, canonical afterwards, then branch later sites.
// base supplies the global options. fn may return false to stop.
func EnumLayouts(build func(l *Layout) *File, base Layout, bound int, fn func(f *File, r *Rendered, l *Layout) bool) int {
	count := 0
	stop := false
	var rec func(prefix []int, cost int)
	rec = func(prefix []int, cost int) {
		if stop {
			return
		}
		l := base
		l.Choices = prefix
		l.Reset()
		root := build(&l)
		if root == nil {
			return
		}
		r := Render(root, &l)
		count++
		if !fn(root, r, &l) {
			stop = true
			return
		}
		if cost >= bound {
			return
		}
		trace := l.Trace
		taken := l.Taken
		for i := len(prefix); i < len(trace); i++ {
			for alt := 1; alt < trace[i].Arity; alt++ {
				p := append(append([]int{}, taken[:i]...), alt)
				rec(p, cost+1)
				if stop {
					return
				}
			}
		}
	}
	rec(nil, 0)
	return count
}
