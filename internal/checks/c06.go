package checks

import (
	"encoding/json"
	"fmt"
	"os"
	"sort"
	"strings"

	"verif/internal/chk"
	"verif/internal/dt"
	"verif/internal/impl"
	"verif/internal/model"
	"verif/internal/overlay"
	"verif/internal/run"
	"verif/shim/vmap"
	"verif/shim/vsync"
)

// C06 — determinism: stateless DFS over map-iteration orders (every `range <map>` of the library is owned by the
// vmap overlay), plus repetition in one process / another process / after another build.

func init() {
	chk.Register(&chk.Check{ID: "C06", Level: "model_checking", Run: runC06})
	chk.RegisterWorker("c06", workC06)
	chk.RegisterWorker("c06pairs", workC06Pairs)
	chk.RegisterWorker("c06bytes", workC06Bytes)
	chk.RegisterWorker("c06sched", workC06Sched)
}

type c06Params struct {
	Bound        int `json:"bound"` // hand-written and generated projects
	CorpusBound  int `json:"corpus_bound"`
	ModelBudget  int `json:"model_budget"`
	MaxExec      int `json:"max_exec_per_project"`
	SchedMaxExec int `json:"sched_max_exec_per_project_without_threads"`
}

// hand-written projects in which several candidates compete for "the first one found"
var c06Projects = []struct{ Name, Text string }{
	{"three-self-recursive-macros", "JSIGHT 0.3\nMACRO @a\n(\n  PASTE @a\n)\nMACRO @b\n(\n  PASTE @b\n)\nMACRO @c\n(\n  PASTE @c\n)\n"},
	{"two-macro-cycles", "JSIGHT 0.3\nMACRO @a\n(\n  PASTE @b\n)\nMACRO @b\n(\n  PASTE @a\n)\nMACRO @c\n(\n  PASTE @d\n)\nMACRO @d\n(\n  PASTE @c\n)\n"},
	{"unused-path-parameters", "JSIGHT 0.3\nGET /a/{id}\n  Path\n  {\"id\": 1, \"x\": 2, \"y\": 3, \"z\": 4}\n  200 any\n"},
	{"three-enums-three-types", "JSIGHT 0.3\nENUM @e1\n[1]\nENUM @e2\n[2]\nENUM @e3\n[3]\nTYPE @t1\n{\"a\": 1 // {enum: @e1}\n}\nTYPE @t2\n{\"a\": 2 // {enum: @e2}\n}\nTYPE @t3\n{\"a\": @t1, \"b\": @t2}\nGET /x\n  200 @t3\n"},
	{"two-bad-enums-used", "JSIGHT 0.3\nENUM @e1\n[1, 1]\nENUM @e2\n[2, 2]\nTYPE @t\n{\"a\": 1}\n"},
	{"two-undefined-types-in-types", "JSIGHT 0.3\nTYPE @t1\n{\"a\": @nope1}\nTYPE @t2\n{\"a\": @nope2}\nTYPE @t3\n{\"a\": @nope3}\n"},
	{"two-undefined-types-in-one-schema", "JSIGHT 0.3\nGET /a\n  200\n  {\"a\": @n1, \"b\": @n2, \"c\": @n3}\n"},
	{"type-cycle-and-unknown", "JSIGHT 0.3\nTYPE @a\n{\"b\": @b}\nTYPE @b\n{\"a\": @a, \"c\": @c}\nTYPE @c\n{\"x\": @unknown}\n"},
	{"allof-many", "JSIGHT 0.3\nTYPE @b1\n{\"p1\": 1}\nTYPE @b2\n{\"p2\": 2}\nTYPE @b3\n{\"p3\": 3}\nTYPE @d\n{ // {allOf: [\"@b1\", \"@b2\", \"@b3\"]}\n \"q\": 1\n}\nGET /d\n  200 @d\n"},
	{"allof-override-conflicts", "JSIGHT 0.3\nTYPE @b1\n{\"p\": 1}\nTYPE @b2\n{\"p\": 2}\nTYPE @d\n{ // {allOf: [\"@b1\", \"@b2\"]}\n \"p\": 3\n}\nGET /d\n  200 @d\n"},
	{"path-pieces-many", "JSIGHT 0.3\nTYPE @i\n 1\nGET /a/{x}/b/{y}/c/{z}\n  Path\n  {\"x\": @i, \"y\": 2, \"z\": \"s\"}\n  200 any\nGET /a/{x}/b/{y}\n  200 any\nGET /a/{x}\n  200 any\n"},
	{"two-path-already-defined", "JSIGHT 0.3\nGET /a/{x}/{y}\n  Path\n  {\"x\": 1, \"y\": 2}\n  200 any\nPOST /a/{x}/{y}\n  Path\n  {\"x\": 1, \"y\": 2}\n  200 any\n"},
	{"tags-and-servers", "JSIGHT 0.3\nSERVER @s1\n  BaseUrl \"http://a\"\nSERVER @s2\n  BaseUrl \"http://b\"\nSERVER @s3\n  BaseUrl \"http://c\"\nTAG @t1\nTAG @t2\nTAG @t3\nGET /a\n  Tags @t3 @t1 @t2\n  200 any\nGET /b\n  200 any\nGET /c\n  200 any\n"},
	{"or-types", "JSIGHT 0.3\nTYPE @x\n 1\nTYPE @y\n \"s\"\nTYPE @z\n true\nGET /o\n  200\n  {\"p\": @x | @y | @z, \"q\": @z | @x}\n"},
	{"regex-types", "JSIGHT 0.3\nTYPE @r1 regex\n/a+/\nTYPE @r2 regex\n/b+/\nTYPE @r3 regex\n/c+/\nGET /r\n  200\n  {\"a\": @r1, \"b\": @r2, \"c\": @r3}\n"},
	{"dup-type-names-x3", "JSIGHT 0.3\nTYPE @cow any\nTYPE @pig any\nTYPE @hen any\nTYPE @pig any\nTYPE @hen any\nTYPE @cow any\n"},
	{"dup-enum-names-x3", "JSIGHT 0.3\nENUM @a\n[1]\nENUM @b\n[1]\nENUM @c\n[1]\nENUM @c\n[2]\nENUM @a\n[2]\nENUM @b\n[2]\n"},
	{"dup-server-tag-macro", "JSIGHT 0.3\nSERVER @s1\n  BaseUrl \"a\"\nSERVER @s2\n  BaseUrl \"b\"\nTAG @t1\nTAG @t2\nTAG @t2\nTAG @t1\nSERVER @s2\n  BaseUrl \"c\"\nSERVER @s1\n  BaseUrl \"d\"\n"},
	{"dup-macros-x3", "JSIGHT 0.3\nMACRO @a\n(\n TYPE @x any\n)\nMACRO @b\n(\n TYPE @y any\n)\nMACRO @b\n(\n TYPE @y2 any\n)\nMACRO @a\n(\n TYPE @x2 any\n)\n"},
	{"dup-interactions-x3", "JSIGHT 0.3\nGET /a\n  200 any\nGET /b\n  200 any\nGET /c\n  200 any\nGET /c\n  200 any\nGET /a\n  200 any\nGET /b\n  200 any\n"},
	{"dup-operation-ids", "JSIGHT 0.3\nGET /a\n  OperationId one\n  200 any\nGET /b\n  OperationId two\n  200 any\nGET /c\n  OperationId two\n  200 any\nGET /d\n  OperationId one\n  200 any\n"},
	{"undefined-tags-x3", "JSIGHT 0.3\nGET /a\n  Tags @n1 @n2 @n3\n  200 any\nGET /b\n  Tags @n3 @n1\n  200 any\n"},
	{"undefined-macros-x3", "JSIGHT 0.3\nTAG @t\nPASTE @n1\nTAG @u\nPASTE @n2\nTAG @v\nPASTE @n3\n"},
	{"missing-bodies-x3", "JSIGHT 0.3\nGET /a\n  200\n    Headers\n    {\"h\": \"1\"}\nGET /b\n  201\n    Headers\n    {\"h\": \"1\"}\nPOST /c\n  Request\n    Headers\n    {\"h\": \"1\"}\n  200 any\n"},
	{"similar-paths-x3", "JSIGHT 0.3\nGET /a/{x}\n  200 any\nGET /b/{x}\n  200 any\nGET /b/{y}\n  200 any\nGET /a/{y}\n  200 any\n"},
	{"headers-not-objects-x3", "JSIGHT 0.3\nTYPE @n\n 1\nGET /a\n  Request\n    Headers @n\n    Body any\n  200\n    Headers @n\n    Body any\n  201\n    Headers @n\n    Body any\n"},
	{"path-unknown-types-x3", "JSIGHT 0.3\nGET /a/{x}/{y}/{z}\n  Path\n  {\"x\": @n1, \"y\": @n2, \"z\": @n3}\n  200 any\n"},
	{"allof-unknown-x3", "JSIGHT 0.3\nTYPE @d\n{ // {allOf: [\"@n1\", \"@n2\", \"@n3\"]}\n \"q\": 1\n}\nGET /d\n  200 @d\n"},
	{"forbidden-annotations-x3", "JSIGHT 0.3\nURL /a // one\n  GET\n    Query // two\n    {}\n    200 any\nURL /b // three\n  GET\n    200 any\n"},
	{"two-protocols-two-urls", "JSIGHT 0.3\nURL /r1\n  Protocol json-rpc-2.0\n  Protocol json-rpc-2.0\n  Method a\n    Params\n    {}\nURL /r2\n  Protocol json-rpc-2.0\n  Protocol json-rpc-2.0\n  Method b\n    Params\n    {}\n"},
	// errors found only when the schemas are serialised at the end of the build: several interactions / types compete
	{"late-undefined-path-types-x3", "JSIGHT 0.3\nGET /a/{id}\n  Path\n  {\n    \"id\": 1 // {type: \"@m1\"}\n  }\n  200 any\nGET /b/{id}\n  Path\n  {\n    \"id\": 1 // {type: \"@m2\"}\n  }\n  200 any\nGET /c/{id}\n  Path\n  {\n    \"id\": 1 // {type: \"@m3\"}\n  }\n  200 any\n"},
	{"late-invalid-regex-responses-x3", "JSIGHT 0.3\nGET /a\n  200 regex\n  /[a-/\nGET /b\n  200 regex\n  /[b-/\nGET /c\n  200 regex\n  /[c-/\n"},
	{"late-invalid-regex-types-and-response", "JSIGHT 0.3\nTYPE @r1 regex\n/[a-/\nTYPE @r2 regex\n/[b-/\nGET /c\n  200 regex\n  /[c-/\n"},
	{"late-undefined-or-types-x2", "JSIGHT 0.3\nGET /a/{id}\n  Path\n  {\n    \"id\": 1 // {or: [\"@u1\", \"@u2\"]}\n  }\n  200 any\nGET /b/{id}\n  Path\n  {\n    \"id\": 2 // {or: [\"@u3\", \"@u4\"]}\n  }\n  200 any\n"},
	{"late-rpc-invalid-regex-x2", "JSIGHT 0.3\nURL /r\n  Protocol json-rpc-2.0\n  Method a\n    Params regex\n    /[a-/\n    Result regex\n    /[b-/\n  Method b\n    Params regex\n    /[c-/\n"},
	// two response codes of one interaction that cannot be exported to OpenAPI, each in its own way
	{"openapi-two-failing-response-codes", "JSIGHT 0.3\nGET /a\n  200 empty\n  200 any\n  404\n  {\n    \"p\": { // {additionalProperties: \"decimal\"}\n    }\n  }\n  500\n  {\n    \"q\": { // {additionalProperties: \"enum\"}\n    }\n  }\n"},
	{"openapi-rich", "JSIGHT 0.3\nTYPE @t1\n{\"a\": 1}\nTYPE @t2\n{\"b\": @t1}\nTYPE @t3\n{\"c\": @t2}\nGET /a/{id}\n  Query\n  {\"q1\": 1, \"q2\": 2, \"q3\": 3}\n  Request\n    Headers\n    {\"H1\": \"1\", \"H2\": \"2\", \"H3\": \"3\"}\n    Body @t3\n  200 @t1\n  404 @t2\n  500 @t3\n"},
}

type c06Exec struct {
	sites []string
	arity []int
	taken []int
	obs   string
}

// c06Run builds (and serialises) project p with the given choice prefix.
func c06Run(build func() *impl.Built, prefix []int) c06Exec {
	var x c06Exec
	pos := 0
	vmap.Hook = func(site string, n int) []int {
		perms := vmap.Perms(n)
		k := 0
		if pos < len(prefix) {
			k = prefix[pos]
			if k >= len(perms) {
				panic(fmt.Sprintf("vmap replay divergence at point %d (%s): choice %d of %d", pos, site, k, len(perms)))
			}
		}
		pos++
		x.sites = append(x.sites, site)
		x.arity = append(x.arity, len(perms))
		x.taken = append(x.taken, k)
		return perms[k]
	}
	defer func() { vmap.Hook = nil }()
	b := build()
	switch {
	case b.Panic != nil:
		x.obs = "PANIC " + b.Panic.Value
	case b.Err != nil:
		x.obs = "ERR " + b.Err.Tuple()
	default:
		x.obs = "JSON " + impl.ToJson(&b.J).String() + "\nOPENAPI " + impl.ToOpenAPI(&b.J).String()
	}
	return x
}

// c06Explore: all executions with at most bound non-canonical map orders. Returns executions, points, diverging exec.
func c06Explore(w *run.W, name string, build func() *impl.Built, bound, maxExec int) {
	base := c06Run(build, nil)
	execs, points := 0, 0
	capped := false
	outcomes := map[string]bool{}
	siteSet := map[string]bool{}
	var rec func(prefix []int, cost int)
	rec = func(prefix []int, cost int) {
		if maxExec > 0 && execs >= maxExec {
			capped = true
			return
		}
		x := c06Run(build, prefix)
		w.Touch()
		execs++
		points += len(x.taken)
		outcomes[x.obs] = true
		for _, s := range x.sites {
			siteSet[s] = true
		}
		if x.obs != base.obs {
			// replay twice before believing
			y, z := c06Run(build, prefix), c06Run(build, prefix)
			if y.obs == x.obs && z.obs == x.obs {
				var where []string
				for i, t := range x.taken {
					if t != 0 {
						where = append(where, fmt.Sprintf("%s(order %d of %d)", x.sites[i], t, x.arity[i]))
					}
				}
				w.Violation("C06", "map-order:"+strings.Join(siteNames(x, true), "+"), fmt.Sprintf("project %s: the result depends on map iteration order at %v\n canonical: %s\n permuted:  %s", name, where, firstDiff(base.obs, x.obs), firstDiff(x.obs, base.obs)),
					map[string]any{"project": name, "choices": x.taken})
			} else {
				w.Violation("C06", "replay-not-reproducible", fmt.Sprintf("project %s: a diverging execution did not reproduce on replay (nondeterminism not owned by the explorer)", name), map[string]any{"project": name})
			}
			return
		}
		if cost >= bound {
			return
		}
		for i := len(prefix); i < len(x.taken); i++ {
			for alt := 1; alt < x.arity[i]; alt++ {
				rec(append(append([]int{}, x.taken[:i]...), alt), cost+1)
			}
		}
	}
	rec(nil, 0)
	w.Count("executions", int64(execs))
	w.Count("choice_points", int64(points))
	w.Count("projects", 1)
	w.Count("distinct_outcomes_total", int64(len(outcomes)))
	if capped {
		w.Count("projects_capped", 1)
	}
	for s := range siteSet {
		w.Count("site "+s, 1)
	}
	// repetition in one process
	r2 := c06Run(build, nil)
	if r2.obs != base.obs {
		w.Violation("C06", "same-process-repeat", fmt.Sprintf("project %s: building twice in one process gives different results: %s", name, firstDiff(base.obs, r2.obs)), map[string]any{"project": name})
	}
	w.Emit("obs", map[string]any{"project": name, "hash": hashStr(base.obs), "shard": w.Shard})
}

func siteNames(x c06Exec, onlyTaken bool) []string {
	m := map[string]bool{}
	for i, s := range x.sites {
		if !onlyTaken || x.taken[i] != 0 {
			m[s] = true
		}
	}
	var out []string
	for s := range m {
		out = append(out, s)
	}
	sort.Strings(out)
	return out
}

func hashStr(s string) string {
	h := uint64(1469598103934665603)
	for i := 0; i < len(s); i++ {
		h ^= uint64(s[i])
		h *= 1099511628211
	}
	return fmt.Sprintf("%016x", h)
}

type c06Proj struct {
	name  string
	build func() *impl.Built
}

func c06ProjectList(budget int, dir string) []c06Proj {
	var out []c06Proj
	for _, p := range c06Projects {
		p := p
		out = append(out, c06Proj{"builtin:" + p.Name, func() *impl.Built { return impl.BuildMem("root.jst", p.Text) }})
	}
	for _, p := range c16Projects {
		p := p
		out = append(out, c06Proj{"builtin16:" + p.Name, func() *impl.Built { return impl.BuildMem("root.jst", p.Text) }})
	}
	for _, f := range corpusFiles() {
		f := f
		out = append(out, c06Proj{"corpus:" + f, func() *impl.Built { return impl.BuildDisk(f) }})
	}
	// every 7th / every graph of three user types (typegraphs.go): cyclic references with several faulty types compete
	// for "the first error"
	typeGraphDocs(map[bool]int{true: 7, false: 1}[budget <= 2], func(name, text string) {
		out = append(out, c06Proj{name, func() *impl.Built { return impl.BuildMem("root.jst", text) }})
	})
	pal := model.DefaultPalette()
	i := 0
	model.EnumDocs(pal, budget, 0, func(d *model.Doc) {
		i++
		l := canonGlobal.Layout()
		l.Only = map[string]bool{}
		l.Reset()
		r := dt.Render(d.ToTree(&l), &l)
		txt := r.Files[r.Root]
		out = append(out, c06Proj{fmt.Sprintf("model%d", i), func() *impl.Built { return impl.BuildMem("root.jst", txt) }})
		// and single-fault variants with two or three simultaneous faults of one class are part of the builtin list
	})
	return out
}

func workC06(w *run.W) {
	var p c06Params
	json.Unmarshal(w.Params, &p)
	dir := workerDir(w)
	defer os.RemoveAll(dir)
	for i, pr := range c06ProjectList(p.ModelBudget, dir) {
		// shard w.Of ways but ALSO run every project in a second process (shard+1) for the cross-process comparison
		mine := w.Mine(int64(i))
		second := w.Of > 1 && (w.Owner(int64(i))+1)%w.Of == w.Shard
		if !mine && !second {
			continue
		}
		if !w.Begin(pr.name) {
			continue
		}
		if mine {
			bound := p.Bound
			if strings.HasPrefix(pr.name, "corpus:") || strings.HasPrefix(pr.name, "types/") {
				bound = p.CorpusBound
			}
			c06Explore(w, pr.name, pr.build, bound, p.MaxExec)
			w.Nontrivial(pr.name)
		} else {
			x := c06Run(pr.build, nil)
			w.Emit("obs", map[string]any{"project": pr.name, "hash": hashStr(x.obs), "shard": w.Shard})
		}
		w.End()
	}
	if w.Shard == 0 {
		w.Sample(map[string]any{"project": c06Projects[2].Name, "text": c06Projects[2].Text, "explored": "every execution in which at most `bound` map ranges take a non-canonical order"})
	}
}

// workC06Bytes: the caller's bytes. Every hand-written project, in LF / CRLF / CR form, is built twice from one
// caller-owned []byte: the slice must be unchanged afterwards and the second build must give the first one's result.
func workC06Bytes(w *run.W) {
	var idx int64
	obs := func(b *impl.Built) string {
		switch {
		case b.Panic != nil:
			return "PANIC " + b.Panic.Value
		case b.Err != nil:
			return "ERR " + b.Err.Tuple()
		}
		return "JSON " + impl.ToJson(&b.J).String()
	}
	var texts []struct{ name, text string }
	for _, p := range c06Projects {
		texts = append(texts, struct{ name, text string }{p.Name, p.Text})
	}
	for _, p := range c16Projects {
		texts = append(texts, struct{ name, text string }{p.Name, p.Text})
	}
	texts = append(texts, struct{ name, text string }{"descriptions", "JSIGHT 0.3\nINFO\n  Title \"T\"\n  Description\n    line one\n    line two\n\n    line four\nTAG @t\n  Description\n  (\n    in parentheses\n    second\n  )\nGET /a\n  Description\n    of the method\n  200 any\n"})
	for _, t := range texts {
		for ei, eol := range []string{"\n", "\r\n", "\r"} {
			idx++
			if !w.Mine(idx) || !w.Begin(fmt.Sprintf("bytes/%s/eol%d", t.name, ei)) {
				continue
			}
			txt := strings.ReplaceAll(t.text, "\n", eol)
			buf := []byte(txt)
			first := obs(impl.BuildBytes("root.jst", buf))
			w.Count("byte_slice_builds", 2)
			if string(buf) != txt {
				w.Violation("C06", "caller-bytes-modified", fmt.Sprintf("project %s (line ending %q): building modified the caller's byte slice: %s", t.name, eol, firstDiff(string(buf), txt)), map[string]any{"project": t.name})
			}
			second := obs(impl.BuildBytes("root.jst", buf))
			if second != first {
				w.Violation("C06", "second-build-from-same-bytes-differs", fmt.Sprintf("project %s (line ending %q): the second build from the same byte slice differs: %s", t.name, eol, firstDiff(second, first)), map[string]any{"project": t.name})
			}
			fresh := obs(impl.BuildMem("root.jst", txt))
			if fresh != first {
				w.Violation("C06", "bytes-vs-string-build-differs", fmt.Sprintf("project %s: building from bytes and from a string differ: %s", t.name, firstDiff(first, fresh)), map[string]any{"project": t.name})
			}
			w.End()
		}
	}
}

// workC06Pairs: prior-build interference — every ordered pair (A then B) of a project set in one process.
func workC06Pairs(w *run.W) {
	var set []c06Proj
	for _, p := range c06Projects {
		p := p
		set = append(set, c06Proj{p.Name, func() *impl.Built { return impl.BuildMem("root.jst", p.Text) }})
	}
	for _, p := range c16Projects {
		p := p
		set = append(set, c06Proj{p.Name, func() *impl.Built { return impl.BuildMem("root.jst", p.Text) }})
	}
	alone := make([]string, len(set))
	for i, p := range set {
		alone[i] = c06Run(p.build, nil).obs
	}
	var idx int64
	for i, a := range set {
		for j, b := range set {
			idx++
			if !w.Mine(idx) || !w.Begin(fmt.Sprintf("pair/%s/%s", a.name, b.name)) {
				continue
			}
			c06Run(a.build, nil)
			got := c06Run(b.build, nil).obs
			w.Count("pairs", 1)
			if got != alone[j] {
				w.Violation("C06", "prior-build-interference", fmt.Sprintf("building %s after %s differs from building it alone: %s", b.name, a.name, firstDiff(got, alone[j])), map[string]any{"first": a.name, "second": b.name})
			}
			_ = i
			w.End()
		}
	}
}

// ---- internal schedules: goroutines the library starts itself (none on the pinned tree) run under the cooperative
// scheduler of the vsync variant; every schedule within the deviation bound must give the same observation.

type c06SchedExec struct {
	points   []vsync.Point
	obs      string
	deadlock bool
	limit    bool
	leaked   int
	spawned  int
}

func c06SchedRun(build func() *impl.Built, prefix []int) (x c06SchedExec) {
	vsync.ResetPools()
	s := &vsync.Sched{Prefix: prefix}
	s.Run(func() {
		b := build()
		switch {
		case b.Panic != nil:
			x.obs = "PANIC " + b.Panic.Value
		case b.Err != nil:
			x.obs = "ERR " + b.Err.Tuple()
		default:
			x.obs = "JSON " + impl.ToJson(&b.J).String() + "\nOPENAPI " + impl.ToOpenAPI(&b.J).String()
		}
	})
	x.points = s.Points
	x.deadlock, x.limit, x.leaked, x.spawned = s.Deadlock || s.Livelock, s.SelectLimit, s.Leaked, s.SpawnedThreads()
	return x
}

func workC06Sched(w *run.W) {
	var p c06Params
	json.Unmarshal(w.Params, &p)
	dir := workerDir(w)
	defer os.RemoveAll(dir)
	for i, pr := range c06ProjectList(p.ModelBudget, dir) {
		if !w.Mine(int64(i)) || !w.Begin("sched:"+pr.name) {
			continue
		}
		base := c06SchedRun(pr.build, nil)
		w.Count("sched_projects", 1)
		w.Count("sched_executions", 1)
		w.Count("sched_threads_started_by_the_library", int64(base.spawned))
		w.Count("sched_points", int64(len(base.points)))
		execs := 1
		capped := false
		unstable := false
		judge := func(x c06SchedExec, prefix []int) bool {
			if unstable {
				return false
			}
			detail := map[string]any{"project": pr.name, "choices": prefix}
			if x.limit {
				w.Count("sched_select_limit", 1)
				return true
			}
			if x.deadlock {
				w.Violation("C06", "internal-schedule:deadlock", fmt.Sprintf("project %s: the build deadlocks (or exceeds the step limit) under the schedule %v of the goroutines the library starts", pr.name, prefix), detail)
				return false
			}
			if x.obs != base.obs {
				// is the schedule the cause? replay this schedule and the canonical one: when either does not repeat itself,
				// something this variant does not control decides (the iteration order of a map — the map-order DFS of this
				// check owns that), and the project is not judged here
				y := c06SchedRun(pr.build, prefix)
				z := c06SchedRun(pr.build, nil)
				if y.obs != x.obs || z.obs != base.obs {
					w.Count("sched_projects_with_uncontrolled_nondeterminism(map order)", 1)
					unstable = true
					return false
				}
				w.Violation("C06", "internal-schedule:"+obsClass(x.obs)+"-vs-"+obsClass(base.obs), fmt.Sprintf("project %s: the result depends on the schedule of the goroutines the library starts (choices %v)\n canonical: %s\n this one:  %s", pr.name, prefix, firstDiff(base.obs, x.obs), firstDiff(x.obs, base.obs)), detail)
				return false
			}
			return true
		}
		judge(base, nil)
		// a sequential build has choice points too (which pooled object a Get returns): deviations <= bound, and a small
		// cap per project — the full bound+1 is spent only on projects in which the library starts threads
		bound, maxExec := p.Bound, p.SchedMaxExec
		if base.spawned > 0 {
			bound, maxExec = p.Bound+1, p.MaxExec
		}
		var rec func(x c06SchedExec, prefix []int, cost int)
		rec = func(x c06SchedExec, prefix []int, cost int) {
			for i := len(prefix); i < len(x.points); i++ {
				if cost+1 > bound {
					continue
				}
				for alt := 1; alt < x.points[i].Arity; alt++ {
					if unstable {
						return
					}
					if maxExec > 0 && execs >= maxExec {
						capped = true
						return
					}
					np := make([]int, i+1)
					for k := 0; k < i; k++ {
						np[k] = x.points[k].Taken
					}
					np[i] = alt
					y := c06SchedRun(pr.build, np)
					execs++
					w.Count("sched_executions", 1)
					w.Touch()
					if judge(y, np) {
						rec(y, np, cost+1)
					}
				}
			}
		}
		rec(base, nil, 0)
		if capped {
			w.Count("sched_projects_capped", 1)
		}
		w.End()
	}
}

func obsClass(o string) string {
	if i := strings.IndexByte(o, ' '); i > 0 {
		return o[:i]
	}
	return o
}

func runC06(c *chk.Ctx) {
	rewrites, sites, err := overlay.MapRangeRewritesCached()
	if err != nil {
		c.Violation("machinery:vmap-analysis", "loading the library packages for the map-range rewrite failed: "+err.Error(), "", nil, "", nil)
		return
	}
	if os.Getenv("VCHECK_BUILD_DIR") != "" {
		if _, e := os.Stat(os.Getenv("VCHECK_BUILD_DIR") + "/vcheck-vmap"); e != nil && len(rewrites()) == 0 {
			c.Violation("machinery:vmap-analysis", "no map-range site found by the type-directed rewrite (package loading failed?)", "", nil, "", nil)
			return
		}
	}
	exe, nfiles, err := overlay.Build("vmap", func(path string, src []byte) ([]byte, bool) {
		b, ok := rewrites()[path]
		return b, ok
	})
	if err != nil {
		fmt.Fprintln(os.Stderr, err)
		c.Violation("machinery:vmap-build", "the map-range overlay build failed", "", nil, "", nil)
		return
	}
	c.Cov["map_range_sites_rewritten"] = sites()
	c.Cov["files_rewritten"] = nfiles
	p := c06Params{Bound: chk.Pick(c, 1, 2), CorpusBound: 1, ModelBudget: chk.Pick(c, 2, 3), MaxExec: chk.Pick(c, 400, 20000), SchedMaxExec: chk.Pick(c, 60, 100)}
	pool := *c.Pool
	pool.Exe = exe
	r := pool.Run("c06", p)
	c.Merge(r, "executions")
	// cross-process comparison of the canonical observation
	byProj := map[string]map[string]bool{}
	for _, raw := range r.Emitted["obs"] {
		var m struct {
			Project, Hash string
			Shard         int
		}
		if json.Unmarshal(raw, &m) == nil {
			if byProj[m.Project] == nil {
				byProj[m.Project] = map[string]bool{}
			}
			byProj[m.Project][m.Hash] = true
		}
	}
	two := 0
	for pr, hs := range byProj {
		if len(hs) > 1 {
			c.Violation("other-process", "project "+pr+": two processes produced different results for the same project", "c06", p, pr, nil)
		}
		two++
	}
	c.Cov["projects_compared_across_processes"] = two
	r2 := pool.Run("c06pairs", p)
	c.Merge(r2, "pairs")
	r3 := pool.Run("c06bytes", p)
	c.Merge(r3, "byte_slice_builds")
	// a project on disk that is edited between the builds of one process
	hp := c06HistParams{Depth: chk.Pick(c, 4, 5)}
	r5 := c.Pool.Run("c06hist", hp)
	c.Merge(r5, "histories")
	c.Cov["disk_history_params"] = hp
	// goroutines started by the library itself, under the cooperative scheduler
	if vexe, _, info, err := overlay.BuildVsync(); err != nil {
		fmt.Fprintln(os.Stderr, err)
		c.Incomplete = append(c.Incomplete, "the cooperative-scheduler variant could not be built for this tree: schedules of goroutines started by the library are not explored")
	} else {
		vpool := *c.Pool
		vpool.Exe = vexe
		r4 := vpool.Run("c06sched", p)
		c.Merge(r4, "sched_executions")
		c.Cov["library_goroutine_and_channel_sites_rewritten"] = len(info.Sites)
		if len(info.Unsupported) > 0 {
			c.Cov["concurrency_constructs_not_controlled"] = info.Unsupported
			c.Incomplete = append(c.Incomplete, fmt.Sprintf("%d concurrency construct(s) of the library are not controlled by the explorer", len(info.Unsupported)))
		}
		if n := c.Counts()["sched_select_limit"]; n > 0 {
			c.Incomplete = append(c.Incomplete, fmt.Sprintf("%d execution(s) ended with threads parked in facing select statements (not modelled, not judged)", n))
		}
	}
	cnt := c.Counts()
	c.Cov["states"] = cnt["choice_points"]
	c.Cov["transitions"] = cnt["executions"]
	c.Cov["traces_validated_against_impl"] = cnt["executions"]
	sitesHit := map[string]int64{}
	for k, v := range cnt {
		if strings.HasPrefix(k, "site ") {
			sitesHit[strings.TrimPrefix(k, "site ")] = v
		}
	}
	c.Cov["sites_with_two_or_more_keys_executed(projects)"] = sitesHit
	c.Cov["params"] = p
	if cnt["projects_capped"] > 0 {
		c.Incomplete = append(c.Incomplete, fmt.Sprintf("%d project(s) reached the per-project execution cap %d", cnt["projects_capped"], p.MaxExec))
	}
	c.Cov["rule"] = "every `for range <map>` of jsight-api-core and jsight-schema-core is rewritten (type-directed, by a build overlay generated from the current tree) to ask the explorer for its order; for every project (hand-written competing-candidate projects, every corpus file, every generated model within the budget) all executions with at most `bound` non-canonical orders are run (all permutations for maps of <= 4 keys, rotations and reversal beyond) and must yield the identical catalog+OpenAPI bytes or the identical error tuple; each diverging execution is replayed twice. In addition: each project twice in one process, once in a second process, every ordered pair of the hand-written set in one process, and each hand-written project (LF, CRLF, CR) twice from one caller-owned byte slice, which must stay unchanged. Disk histories: over a four-file project (root, two INCLUDEs, one nested; 2-4 same-length variants per file, among them a dangling reference and a lexical error) every sequence of at most `depth` operations from {build, rewrite file f with variant v in place with the modification time pinned to a constant | left to the file system} is executed in a directory of its own, and every build in it must equal the build of the same contents in a directory no build has seen. Goroutines the library starts itself (go statements, channel operations, select, sync and sync/atomic are rewritten to a cooperative scheduler by a second overlay) are explored the same way: every schedule within bound+1 deviations must give the canonical observation and must not deadlock."
}
