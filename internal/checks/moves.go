package checks

import (
	"fmt"

	"verif/internal/dt"
	"verif/internal/model"
	"verif/internal/ref"
)

// buildTree builds the directive tree of a model under a layout, including MACRO+PASTE / INCLUDE moves as sites.
func buildTree(d *model.Doc, l *dt.Layout, moves bool) *dt.File {
	f := d.ToTree(l)
	if !moves {
		return f
	}
	for step := 0; step < 3; step++ {
		mm := listMoves(f)
		if len(mm) == 0 {
			break
		}
		k := l.Choose("move", 1+len(mm))
		if k == 0 {
			break
		}
		f = applyMove(f, mm[k-1], step)
	}
	return f
}

type move struct {
	Path  []int // path to the parent list: indices into Nodes/Kids ([] = top level of the file)
	I, J  int   // run [I, J] inclusive
	Kind  int   // 0 macro defined before use, 1 macro defined after use, 2 include
	Hoist bool  // the parent does not admit PASTE: the PASTE is written after the parent (one level up), which is where
	// the language attaches it anyway; the pasted directives still land in the parent's (implicit, still open) context
}

// listMoves enumerates every contiguous run of siblings (at every level) x move kind. JSIGHT and MACRO nodes and
// runs containing them are not moved; INCLUDE pieces may not contain JSIGHT.
func listMoves(f *dt.File) []move {
	var out []move
	var rec func(nn []*dt.Node, path []int, parentKind, grandKind string)
	rec = func(nn []*dt.Node, path []int, parentKind, grandKind string) {
		for i := 0; i < len(nn); i++ {
			for j := i; j < len(nn); j++ {
				ok := true
				for _, n := range nn[i : j+1] {
					if n.Kw == "JSIGHT" || n.Kw == "MACRO" || n.Inc != nil {
						ok = false
					}
				}
				if !ok {
					break
				}
				// macro moves need PASTE to be admitted where the run stands and MACRO to admit the run's kinds
				macroOK := ref.Admits(parentKind, "PASTE")
				for _, n := range nn[i : j+1] {
					if !ref.Admits("MACRO", n.Kind()) {
						macroOK = false
					}
				}
				if macroOK {
					out = append(out, move{Path: append([]int{}, path...), I: i, J: j, Kind: 0}, move{Path: append([]int{}, path...), I: i, J: j, Kind: 1})
				} else if len(path) > 0 && j == len(nn)-1 && !ref.Admits(parentKind, "PASTE") && ref.Admits(grandKind, "PASTE") {
					hoistOK := true
					for _, n := range nn[i : j+1] {
						if !ref.Admits("MACRO", n.Kind()) {
							hoistOK = false
						}
					}
					if hoistOK {
						out = append(out, move{Path: append([]int{}, path...), I: i, J: j, Kind: 1, Hoist: true})
					}
				}
				out = append(out, move{Path: append([]int{}, path...), I: i, J: j, Kind: 2})
			}
		}
		for i, n := range nn {
			if n.Inc == nil && n.Kw != "MACRO" {
				rec(n.Kids, append(append([]int{}, path...), i), n.Kind(), parentKind)
			}
		}
	}
	rec(f.Nodes, nil, "", "")
	return out
}

func applyMove(f *dt.File, m move, seq int) *dt.File {
	f = f.Clone()
	// locate the list
	list := &f.Nodes
	for _, i := range m.Path {
		list = &(*list)[i].Kids
	}
	run := append([]*dt.Node{}, (*list)[m.I:m.J+1]...)
	var repl *dt.Node
	switch m.Kind {
	case 0, 1:
		name := fmt.Sprintf("@m%d", seq)
		repl = dt.N("PASTE", name)
		repl.NoExplicit = true
		mac := dt.N("MACRO", name)
		mac.Explicit = true
		mac.Kids = run
		if m.Hoist {
			// remove the run from the parent, write the PASTE right after the parent in the grandparent's list
			*list = (*list)[:m.I:m.I]
			gl := &f.Nodes
			for _, i := range m.Path[:len(m.Path)-1] {
				gl = &(*gl)[i].Kids
			}
			pi := m.Path[len(m.Path)-1]
			(*gl)[pi].NoExplicit = true
			after := append([]*dt.Node{}, (*gl)[pi+1:]...)
			*gl = append(append((*gl)[:pi+1:pi+1], repl), after...)
		} else {
			rest := append([]*dt.Node{}, (*list)[m.J+1:]...)
			*list = append(append((*list)[:m.I:m.I], repl), rest...)
		}
		if m.Kind == 0 {
			// definition right after JSIGHT
			f.Nodes = append(f.Nodes[:1:1], append([]*dt.Node{mac}, f.Nodes[1:]...)...)
		} else {
			f.Nodes = append(f.Nodes, mac)
		}
	case 2:
		name := fmt.Sprintf("p%d.jst", seq)
		repl = dt.N("INCLUDE", name)
		repl.NoExplicit = true
		repl.Inc = &dt.File{Name: name, Nodes: run}
		rest := append([]*dt.Node{}, (*list)[m.J+1:]...)
		*list = append(append((*list)[:m.I:m.I], repl), rest...)
	}
	return f
}
