package checks

import (
	"fmt"
	"strings"

	"verif/internal/dt"
	"verif/internal/impl"
	"verif/internal/model"
)

type Global struct {
	EOL     string `json:"eol"`
	Unit    string `json:"unit"`
	FinalNL bool   `json:"final_nl"`
}

func (g Global) Layout() dt.Layout { return dt.Layout{EOL: g.EOL, Unit: g.Unit, FinalNL: g.FinalNL} }

func (g Global) String() string {
	return fmt.Sprintf("eol=%q unit=%q finalnl=%v", g.EOL, g.Unit, g.FinalNL)
}

var canonGlobal = Global{"\n", "  ", true}

// allGlobals: full product of line ending x indentation unit x final newline.
func allGlobals() []Global {
	var out []Global
	for _, e := range []string{"\n", "\r\n", "\r"} {
		for _, u := range []string{"  ", "    ", "\t", ""} {
			for _, f := range []bool{true, false} {
				out = append(out, Global{e, u, f})
			}
		}
	}
	return out
}

func someGlobals() []Global {
	return []Global{canonGlobal, {"\r\n", "\t", true}, {"\r", "    ", false}, {"\n", "", false}}
}

func project(r *dt.Rendered) impl.Project {
	return impl.Project{Files: r.Files, Root: r.Root}
}

func explicitOf(r *dt.Rendered) func(*dt.Node) bool {
	return func(n *dt.Node) bool { return n.Explicit || r.Explicit[n] }
}

func showProject(p impl.Project) string {
	var b strings.Builder
	for n, c := range p.Files {
		fmt.Fprintf(&b, "--- %s\n%s\n", n, c)
	}
	return b.String()
}

// jdocDiff builds nothing: compares the parsed ToJson output with the model's expected document.
func jdocDiff(d *model.Doc, out string) string {
	act, err := model.ParseOrdered([]byte(out))
	if err != nil {
		return "ToJson output is not valid JSON: " + err.Error()
	}
	return model.Diff(d.Expected(), act, "")
}

func diffClass(diff string) string {
	// pointer without indices / names, to keep the known-findings key narrow but stable
	p := diff
	if i := strings.Index(p, ":"); i >= 0 {
		rest := p[i+1:]
		p = p[:i]
		words := strings.Fields(rest)
		if len(words) > 2 {
			words = words[:2]
		}
		parts := strings.Split(p, "/")
		for j, s := range parts {
			if strings.ContainsAny(s, " {@") || (len(s) > 0 && s[0] >= '0' && s[0] <= '9') {
				parts[j] = "*"
			}
		}
		return strings.Join(parts, "/") + ":" + strings.Join(words, " ")
	}
	return p
}

// errClass masks quoted strings and numbers in an error message.
func errClass(msg string) string {
	var b strings.Builder
	inq := byte(0)
	for i := 0; i < len(msg); i++ {
		c := msg[i]
		if inq != 0 {
			if c == inq {
				inq = 0
			}
			continue
		}
		if c == '"' || c == '\'' || c == '`' {
			inq = c
			b.WriteByte('"')
			continue
		}
		if c >= '0' && c <= '9' {
			c = '#'
		}
		b.WriteByte(c)
	}
	s := b.String()
	if len(s) > 70 {
		s = s[:70]
	}
	return s
}
