package checks

import (
	"encoding/json"
	"fmt"
	"os"
	"path/filepath"
	"strings"

	"github.com/jsightapi/jsight-schema-core/fs"
	"github.com/jsightapi/jsight-schema-core/reader"

	"github.com/jsightapi/jsight-api-core/core"

	"verif/internal/chk"
	"verif/internal/impl"
	"verif/internal/ref"
	"verif/internal/run"
)

// C11 — explicit-state BFS over the reference context automaton; every transition replayed on the real core.

func init() {
	chk.Register(&chk.Check{ID: "C11", Level: "model_checking", Run: runC11})
	chk.RegisterWorker("c11bfs", workC11BFS)
	chk.RegisterWorker("c11seq", workC11Seq)
}

// c11Alphabet: one well-formed instance per directive kind x explicit/implicit (x path/no-path for methods), plus ')'.
func c11Alphabet() []ref.Sym {
	var out []ref.Sym
	for _, k := range ref.Kinds {
		switch {
		case k == "INCLUDE":
			out = append(out, ref.Sym{Kind: k})
		case k == "Description":
			out = append(out, ref.Sym{Kind: k}) // '(' after Description delimits its text, it is not a context
		case ref.IsMethodKind(k):
			for _, p := range []bool{false, true} {
				for _, x := range []bool{false, true} {
					out = append(out, ref.Sym{Kind: k, HasPath: p, Explicit: x})
				}
			}
		default:
			out = append(out, ref.Sym{Kind: k}, ref.Sym{Kind: k, Explicit: true})
		}
	}
	// directives written in an included file of their own
	for _, k := range []string{"GET", "CODE", "Body", "Tags", "TYPE"} {
		out = append(out, ref.Sym{Kind: k, Via: "include"})
	}
	out = append(out, ref.Sym{Kind: "GET", HasPath: true, Via: "include"})
	out = append(out, ref.Sym{Close: true})
	return out
}

var c11Text = map[string]string{
	"JSIGHT": "JSIGHT 0.3", "INFO": "INFO", "Title": "Title \"T\"", "Version": "Version 1", "SERVER": "SERVER @s",
	"BaseUrl": "BaseUrl \"http://x\"", "URL": "URL /u", "Body": "Body any", "Request": "Request any", "CODE": "200 any",
	"TYPE": "TYPE @T any", "MACRO": "MACRO @m", "PASTE": "PASTE @m", "Protocol": "Protocol json-rpc-2.0",
	"Method": "Method foo", "TAG": "TAG @t", "Tags": "Tags @t", "OperationId": "OperationId op", "INCLUDE": "INCLUDE e.jst",
}
var c11Body = map[string]string{"Path": "{}", "Headers": "{}", "Query": "{}", "ENUM": "[1]", "Params": "{}", "Result": "{}"}

// c11Render writes a symbol sequence as JSight text; returns text and the 1-based line of each symbol.
func c11Render(seq []ref.Sym) (string, []int) {
	var b strings.Builder
	line := 1
	lines := make([]int, len(seq))
	wl := func(s string) { b.WriteString(s); b.WriteString("\n"); line++ }
	for i, s := range seq {
		lines[i] = line
		switch {
		case s.Via == "include":
			if s.HasPath {
				wl("INCLUDE inc_" + s.Kind + "p.jst") // the included method carries a path of its own
			} else {
				wl("INCLUDE inc_" + s.Kind + ".jst")
			}
		case s.Close:
			wl(")")
		case s.Kind == "Description":
			wl("Description")
			wl("  some text")
		case ref.IsMethodKind(s.Kind):
			if s.HasPath {
				wl(s.Kind + " /m")
			} else {
				wl(s.Kind)
			}
			if s.Explicit {
				wl("(")
			}
		default:
			if body, ok := c11Body[s.Kind]; ok {
				wl(s.Kind)
				if s.Explicit {
					wl("(")
				}
				wl("  " + body)
			} else {
				wl(c11Text[s.Kind])
				if s.Explicit {
					wl("(")
				}
			}
		}
	}
	return b.String(), lines
}

func c11WriteIncludes(dir string) {
	for _, k := range []string{"GET", "CODE", "Body", "Tags", "TYPE"} {
		txt, _ := c11Render([]ref.Sym{{Kind: k}})
		os.WriteFile(filepath.Join(dir, "inc_"+k+".jst"), []byte(txt), 0o644)
	}
	txt, _ := c11Render([]ref.Sym{{Kind: "GET", HasPath: true}})
	os.WriteFile(filepath.Join(dir, "inc_GETp.jst"), []byte(txt), 0o644)
}

type c11Obs struct {
	Err      *impl.ErrObs
	Panic    *impl.Panic
	Chain    []string
	Tree     []string
	Expanded []string // tree after PASTE expansion (second context resolution), nil if that phase failed
	ExpErr   string
}

func c11Run(text string, dir string, disk bool, expand bool) (o c11Obs) {
	defer func() {
		if r := recover(); r != nil {
			o.Panic = impl.CatchPanic(r)
		}
	}()
	var f *fs.File
	if disk {
		p := filepath.Join(dir, "root.jst")
		os.WriteFile(p, []byte(text), 0o644)
		f = reader.Read(p)
	} else {
		f = fs.NewFile("root.jst", text)
	}
	c := core.NewJApiCore(f)
	je := c.VerifScanOnly()
	o.Err = impl.FromJErr(je)
	if je == nil {
		o.Chain = c.VerifContextChain()
		o.Tree = c.VerifTree(false, false)
		// the expansion phase resolves every context a second time on a fresh core
		var f2 *fs.File
		if disk {
			f2 = reader.Read(filepath.Join(dir, "root.jst"))
		} else {
			f2 = fs.NewFile("root.jst", text)
		}
		if !expand {
			return o
		}
		c2 := core.NewJApiCore(f2)
		if je2 := c2.VerifScanAndExpand(); je2 != nil {
			o.ExpErr = je2.Msg
		} else {
			o.Expanded = c2.VerifTree(true, false)
		}
	}
	return o
}

func kindToTypeName(k string) string {
	switch k {
	case "CODE":
		return "HTTP-response-code"
	}
	return k
}

// c11Compare runs seq on the implementation and on the reference and reports the first disagreement ("" = agree).
func c11Compare(seq []ref.Sym, dir string) (key, what string, outcome string) {
	a := &ref.Automaton{}
	verdict, at := ref.OK, -1
	for i, s := range seq {
		if s.Kind == "INCLUDE" {
			continue // including an empty file leaves the context untouched
		}
		if v := a.Step(s); v != ref.OK {
			verdict, at = v, i
			break
		}
	}
	if verdict == ref.OK {
		if v := a.End(); v != ref.OK {
			verdict, at = v, len(seq)
		}
	}
	disk := false
	for _, s := range seq {
		if s.Kind == "INCLUDE" || s.Via != "" {
			disk = true
		}
	}
	text, lines := c11Render(seq)
	noMacro := true
	for _, s := range seq {
		if s.Kind == "MACRO" || s.Kind == "PASTE" {
			noMacro = false
		}
	}
	o := c11Run(text, dir, disk, noMacro)
	if o.Panic != nil {
		return o.Panic.Key(), fmt.Sprintf("panic %s on %q", o.Panic.Value, text), "panic"
	}
	if verdict == ref.OK {
		if o.Err != nil {
			return "accept->reject", fmt.Sprintf("language accepts, implementation rejects with %q at line %d:\n%s", o.Err.Msg, o.Err.Line, text), "reject"
		}
		// End() == OK means every context still open is implicit; the chain must match
		want := a.ChainNames(kindToTypeName)
		if strings.Join(want, ",") != strings.Join(o.Chain, ",") {
			return "chain", fmt.Sprintf("open-context chain differs: implementation %v, reference %v:\n%s", o.Chain, want, text), "accept"
		}
		// tree: preorder == text order; depth from reference parents
		depth := make([]int, len(a.Parents))
		var wantTree []string
		j := 0
		for _, s := range seq {
			if s.Close || s.Kind == "INCLUDE" {
				continue
			}
			if p := a.Parents[j]; p >= 0 {
				depth[j] = depth[p] + 1
			}
			n := kindToTypeName(s.Kind)
			if s.Explicit {
				n += "("
			}
			wantTree = append(wantTree, fmt.Sprintf("%d:%s", depth[j], n))
			j++
		}
		// the implementation's dump is preorder; the reference list is text order: sort-insensitive comparison is wrong,
		// so rebuild preorder from parents
		wantPre := preorder(a.Parents, wantTree)
		if strings.Join(wantPre, " ") != strings.Join(o.Tree, " ") {
			return "tree", fmt.Sprintf("directive tree differs: implementation %v, reference %v:\n%s", o.Tree, wantPre, text), "accept"
		}
		// without MACRO/PASTE the tree rebuilt by the expansion phase must be the same tree
		hasMacro := false
		for _, s := range seq {
			if s.Kind == "MACRO" || s.Kind == "PASTE" {
				hasMacro = true
			}
		}
		if !hasMacro {
			if o.ExpErr != "" {
				return "expanded-rejected", fmt.Sprintf("accepted by the scan phase, rejected when the contexts are resolved again for PASTE expansion: %s\n%s", o.ExpErr, text), "accept"
			}
			if strings.Join(wantPre, " ") != strings.Join(o.Expanded, " ") {
				return "expanded-tree", fmt.Sprintf("directive tree after the expansion phase differs: implementation %v, reference %v:\n%s", o.Expanded, wantPre, text), "accept"
			}
		}
		return "", "", "accept"
	}
	// reference rejects
	if o.Err == nil {
		return "reject->accept:" + verdict, fmt.Sprintf("language rejects (%s at symbol %d), implementation accepts:\n%s", verdict, at, text), "accept"
	}
	var wantMsg string
	wantLine := 0
	switch verdict {
	case ref.IncorrectContext, ref.IncorrectCtxPath:
		wantMsg = "incorrect context for the directive"
		wantLine = lines[at]
		if seq[at].Via != "" {
			wantLine = 1 // located in the included file
		}
	case ref.NothingToClose:
		wantMsg = "nothing to close with this closing parenthesis"
		wantLine = lines[at]
	case ref.NotClosed:
		wantMsg = "this opening parenthesis is not closed"
		wantLine = -1 // reported at end of input (see C07 finding on EOF positions)
	}
	if !strings.Contains(o.Err.Msg, wantMsg) {
		return "reject-class:" + verdict, fmt.Sprintf("expected error %q, got %q (line %d):\n%s", wantMsg, o.Err.Msg, o.Err.Line, text), "reject"
	}
	if wantLine > 0 && int(o.Err.Line) != wantLine {
		return "reject-line:" + verdict, fmt.Sprintf("error %q reported at line %d, offending directive is on line %d:\n%s", o.Err.Msg, o.Err.Line, wantLine, text), "reject"
	}
	return "", "", "reject:" + verdict
}

func preorder(parents []int, labels []string) []string {
	kids := map[int][]int{}
	for i, p := range parents {
		kids[p] = append(kids[p], i)
	}
	var out []string
	var rec func(p int)
	rec = func(p int) {
		for _, k := range kids[p] {
			out = append(out, labels[k])
			rec(k)
		}
	}
	rec(-1)
	return out
}

type c11State struct {
	key     string
	witness []ref.Sym
}

// c11BFS explores the reference automaton; returns states in BFS order.
func c11BFS(alpha []ref.Sym, maxStates int) []c11State {
	start := &ref.Automaton{}
	seen := map[string]bool{start.Key(): true}
	states := []c11State{{key: start.Key()}}
	for i := 0; i < len(states) && (maxStates == 0 || len(states) < maxStates); i++ {
		st := states[i]
		for _, s := range alpha {
			if s.Kind == "INCLUDE" {
				continue
			}
			a := &ref.Automaton{}
			for _, w := range st.witness {
				a.Step(w)
			}
			if a.Step(s) != ref.OK {
				continue
			}
			k := a.Key()
			if !seen[k] {
				seen[k] = true
				states = append(states, c11State{key: k, witness: append(append([]ref.Sym{}, st.witness...), s)})
			}
		}
	}
	return states
}

type c11Params struct {
	MaxStates int `json:"max_states"`
	SeqLen    int `json:"seq_len"`
	// Reduced: use the reduced alphabet (URL, TYPE, GET with/without path, response code, Request, Body, Tags, each
	// implicit/explicit, and ')') so that longer sequences can be enumerated without deduplication
	Reduced bool `json:"reduced"`
}

func c11ReducedAlphabet() []ref.Sym {
	var out []ref.Sym
	for _, k := range []string{"URL", "TYPE", "CODE", "Request", "Body", "Tags", "POST"} {
		out = append(out, ref.Sym{Kind: k}, ref.Sym{Kind: k, Explicit: true})
	}
	out = append(out, ref.Sym{Kind: "GET", HasPath: true}, ref.Sym{Kind: "GET", HasPath: true, Explicit: true}, ref.Sym{Kind: "GET"}, ref.Sym{Kind: "GET", Explicit: true})
	out = append(out, ref.Sym{Kind: "GET", Via: "include"}, ref.Sym{Kind: "CODE", Via: "include"}, ref.Sym{Kind: "GET", HasPath: true, Via: "include"})
	return append(out, ref.Sym{Close: true})
}

func workerDir(w *run.W) string {
	base := os.Getenv("VERIF_TMP")
	if base == "" {
		base = os.TempDir()
	}
	d := filepath.Join(base, fmt.Sprintf("vw-%d", os.Getpid()))
	os.MkdirAll(d, 0o755)
	return d
}

func workC11BFS(w *run.W) {
	var p c11Params
	json.Unmarshal(w.Params, &p)
	dir := workerDir(w)
	defer os.RemoveAll(dir)
	os.WriteFile(filepath.Join(dir, "e.jst"), nil, 0o644)
	c11WriteIncludes(dir)
	alpha := c11Alphabet()
	states := c11BFS(alpha, p.MaxStates)
	maxDepth := 0
	for i, st := range states {
		if len(st.witness) > maxDepth {
			maxDepth = len(st.witness)
		}
		if !w.Mine(int64(i)) {
			continue
		}
		id := fmt.Sprintf("state%d:%s", i, st.key)
		if len(id) > 200 {
			id = id[:200]
		}
		if !w.Begin(id) {
			continue
		}
		w.Count("states", 1)
		for _, s := range alpha {
			seq := append(append([]ref.Sym{}, st.witness...), s)
			key, what, outcome := c11Compare(seq, dir)
			w.Count("transitions", 1)
			w.Count("outcome_"+outcome, 1)
			if key != "" {
				w.Violation("C11", key, what, map[string]any{"sequence": seq})
			}
		}
		if i == 7 || i == 300 {
			txt, _ := c11Render(append(append([]ref.Sym{}, st.witness...), alpha[3]))
			w.Sample(map[string]any{"state": st.key, "witness_plus_symbol_text": txt})
		}
		w.End()
	}
	w.Count("max_depth", 0)
	if w.Shard == 0 {
		w.Emit("bfs", map[string]any{"states": len(states), "max_depth": maxDepth})
	}
}

// workC11Seq: adequacy run — all sequences up to SeqLen without state deduplication.
func workC11Seq(w *run.W) {
	var p c11Params
	json.Unmarshal(w.Params, &p)
	dir := workerDir(w)
	defer os.RemoveAll(dir)
	os.WriteFile(filepath.Join(dir, "e.jst"), nil, 0o644)
	c11WriteIncludes(dir)
	alpha := c11Alphabet()
	if p.Reduced {
		alpha = c11ReducedAlphabet()
	}
	n := len(alpha)
	var idx int64
	for L := 1; L <= p.SeqLen; L++ {
		total := 1
		for i := 0; i < L; i++ {
			total *= n
		}
		for c := 0; c < total; c++ {
			idx++
			if !w.Mine(idx) {
				continue
			}
			seq := make([]ref.Sym, L)
			x := c
			for i := L - 1; i >= 0; i-- {
				seq[i] = alpha[x%n]
				x /= n
			}
			if !w.Begin(fmt.Sprintf("seq%v/%d:%d", p.Reduced, L, c)) {
				continue
			}
			key, what, outcome := c11Compare(seq, dir)
			w.Count("sequences", 1)
			w.Count("outcome_"+outcome, 1)
			if outcome == "accept" {
				txt, _ := c11Render(seq)
				w.Nontrivial(txt)
			}
			if key != "" {
				w.Violation("C11", key, what, map[string]any{"sequence": seq})
			}
			w.End()
		}
	}
}

func runC11(c *chk.Ctx) {
	alpha := c11Alphabet()
	p := c11Params{MaxStates: 0, SeqLen: chk.Pick(c, 3, 3)}
	r := c.Pool.Run("c11bfs", p)
	c.Merge(r, "transitions")
	r2 := c.Pool.Run("c11seq", p)
	c.Merge(r2, "sequences")
	pr := c11Params{SeqLen: chk.Pick(c, 5, 6), Reduced: true}
	r3 := c.Pool.Run("c11seq", pr)
	c.Merge(r3, "sequences")
	c.Cov["reduced_alphabet_seq_len"] = pr.SeqLen
	cnt := c.Counts()
	c.Cov["states"] = cnt["states"]
	c.Cov["transitions"] = cnt["transitions"]
	c.Cov["traces_validated_against_impl"] = cnt["transitions"] + cnt["sequences"]
	c.Cov["alphabet_size"] = len(alpha)
	c.Cov["adequacy_sequences_without_dedup"] = cnt["sequences"]
	c.Cov["adequacy_seq_len"] = p.SeqLen
	if b := r.Emitted["bfs"]; len(b) > 0 {
		var m map[string]any
		json.Unmarshal(b[0], &m)
		c.Cov["bfs"] = m
	}
	c.Cov["rule"] = "states = reachable open-context chains of the reference automaton (all of them); from every state every symbol of the alphabet (kind x explicit/implicit x path/no-path, and ')') is executed on the real scanner+context resolution (VerifScanOnly) over text rendered from shortest witness + symbol; verdict, error class, error line, open-context chain and directive tree are compared. Adequacy: all sequences up to length 3 over the full alphabet, and all sequences up to length 5 (thorough 6) over a reduced 22-symbol alphabet (which includes directives written in an INCLUDEd file of their own), are also run without deduplication (this also exposes state that only the PASTE-expansion pass keeps: for MACRO/PASTE-free sequences the tree rebuilt by that pass must equal the reference tree)."
	c.Cov["exhaustive"] = true
	c.Assumptions = append(c.Assumptions,
		"reference automaton (internal/ref/context.go) holds a frozen copy of the JSight API 0.3 allowed-context table",
		"one well-formed instance per directive kind; scanner-level effects of other instances are covered by C12/C01",
		"future context resolution depends only on the chain of (kind, explicit) — checked by the non-deduplicated adequacy run")
}
