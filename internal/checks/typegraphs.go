package checks

import (
	"fmt"
	"strings"
)

// typeGraphDocs enumerates every document with three user types @a @b @c whose bodies are taken from a small set of
// templates that refer to the other two (objects, optional references, or-shortcuts, arrays, allOf, rule-violating
// examples short and long, any / regex / scalar types), declared in both orders, followed by one consumer of @a.
// The callback receives a stable name and the text. stride > 1 keeps every stride-th document.
func typeGraphDocs(stride int, fn func(name, text string)) int {
	pad := strings.Repeat("x", 150)
	bodies := []func(x, y, z string) string{
		func(x, y, z string) string { return "TYPE " + x + "\n  1\n" },
		func(x, y, z string) string { return "TYPE " + x + "\n{\"k\": " + y + "}\n" },
		func(x, y, z string) string { return "TYPE " + x + "\n{\n  \"k\": " + y + " // {optional: true}\n}\n" },
		func(x, y, z string) string { return "TYPE " + x + "\n  " + y + " | " + z + "\n" },
		func(x, y, z string) string { return "TYPE " + x + "\n  [" + y + "]\n" },
		func(x, y, z string) string {
			return "TYPE " + x + "\n{\n  \"pad\": \"" + pad + "\",\n  \"k\": " + y + ", // {optional: true}\n  \"id\": 1 // {min: 5}\n}\n"
		},
		func(x, y, z string) string { return "TYPE " + x + "\n{\n  \"id\": 1 // {min: 5}\n}\n" },
		func(x, y, z string) string { return "TYPE " + x + " any\n" },
		func(x, y, z string) string { return "TYPE " + x + " regex\n  /a+/\n" },
		func(x, y, z string) string { return "TYPE " + x + "\n{ // {allOf: \"" + y + "\"}\n  \"own" + x[1:] + "\": 1\n}\n" },
		func(x, y, z string) string { return "TYPE " + x + "\n{\n  \"k\": 1 // {or: [\"" + y + "\", \"" + z + "\"]}\n}\n" },
		// the root of the type is another type, or the type itself, made finite by "nullable"
		func(x, y, z string) string { return "TYPE " + x + "\n  " + y + " // {nullable: true}\n" },
		func(x, y, z string) string { return "TYPE " + x + "\n  " + x + " // {nullable: true}\n" },
	}
	consumers := []string{
		"",
		"GET /x/{id}\n  Path\n  {\n    \"id\": @a\n  }\n  200 any\n",
		"GET /x\n  200 @a\n",
		"GET /x/{id}\n  Path @a\n  200 any\n",
		"POST /x\n  Request\n    Headers @a\n    Body [@a]\n  200 any\n",
		"GET /x\n  Query\n  {\"q\": @a}\n  200\n  {\"r\": @a | @b}\n",
		"URL /r\n  Protocol json-rpc-2.0\n  Method m\n    Params @a\n    Result\n    [@b, @c]\n",
		"GET /x\n  200 any\n    Headers\n      @a\n",
		"GET /x/{id}\n  Path\n    @a\n  200 any\n",
	}
	names := []string{"@a", "@b", "@c"}
	n, k := 0, 0
	for i := range bodies {
		for j := range bodies {
			for l := range bodies {
				t := []string{
					bodies[i](names[0], names[1], names[2]),
					bodies[j](names[1], names[2], names[0]),
					bodies[l](names[2], names[0], names[1]),
				}
				for ci, c := range consumers {
					for _, rev := range []bool{false, true} {
						k++
						if stride > 1 && k%stride != 0 {
							continue
						}
						var b strings.Builder
						b.WriteString("JSIGHT 0.3\n")
						if rev {
							b.WriteString(c + t[2] + t[1] + t[0])
						} else {
							b.WriteString(t[0] + t[1] + t[2] + c)
						}
						n++
						fn(fmt.Sprintf("types/%d-%d-%d/consumer%d/rev=%v", i, j, l, ci, rev), b.String())
					}
				}
			}
		}
	}
	return n
}
