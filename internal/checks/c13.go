package checks

import (
	"encoding/json"
	"fmt"
	"strings"

	"github.com/jsightapi/jsight-api-core/directive"

	"verif/internal/chk"
	"verif/internal/impl"
	"verif/internal/ref"
	"verif/internal/run"
)

// C13 — explicit-state BFS over the full byte alphabet from every directive-start context.

type c13Ctx struct {
	Name   string `json:"name"`
	Prefix string `json:"prefix"`
	// Only: when non-empty, only words starting with one of these bytes are directive starts in this context
	// (Request / response-code body position); other first bytes are handed to the schema scanner.
	Only string `json:"only,omitempty"`
	// SkipFirst: first bytes that, in this context, are still inside the look-ahead of the dependency's schema
	// scanner (a '/' on the line after a JSight schema may start a schema annotation) and are therefore not decided
	// by the API scanner's directive-start state.
	SkipFirst string `json:"skip_first,omitempty"`
	// ParenOK: an opening parenthesis is legal here (the position directly follows a directive's keyword line);
	// elsewhere '(' has no directive to belong to and is rejected at that byte.
	ParenOK bool `json:"paren_ok,omitempty"`
}

type c13Params struct {
	Contexts []c13Ctx `json:"contexts"`
	Depth    int      `json:"depth"`
}

func c13Contexts(all bool) []c13Ctx {
	cc := []c13Ctx{
		{Name: "file-start", Prefix: ""},
		{Name: "after-directive-line", ParenOK: true, Prefix: "URL /a\n"},
	}
	if all {
		cc = append(cc,
			c13Ctx{Name: "indented", ParenOK: true, Prefix: "URL /a\n  \t"},
			c13Ctx{Name: "after-crlf", ParenOK: true, Prefix: "URL /a\r\n"},
			c13Ctx{Name: "after-explicit-open", Prefix: "URL /a\n(\n"},
			c13Ctx{Name: "after-explicit-close", Prefix: "URL /a\n(\n)\n"},
			c13Ctx{Name: "after-schema-body", Prefix: "TYPE @a\n{}\n", SkipFirst: "/"},
			c13Ctx{Name: "after-regex-body", Prefix: "TYPE @a regex\n/a/\n"},
			c13Ctx{Name: "after-enum-body", Prefix: "ENUM @e\n[1]\n", SkipFirst: "/"},
			c13Ctx{Name: "after-annotation", ParenOK: true, Prefix: "GET /a // note\n"},
			c13Ctx{Name: "after-comment", Prefix: "# c\n"},
			c13Ctx{Name: "after-block-comment", Prefix: "### c\n ###\n"},
			c13Ctx{Name: "after-any-type", ParenOK: true, Prefix: "TYPE @a any\n"},
			c13Ctx{Name: "request-body-position", Prefix: "Request\n", Only: "BHPI"},
			c13Ctx{Name: "response-body-position", Prefix: "200\n", Only: "BHPI"},
		)
	}
	return cc
}

func init() {
	chk.Register(&chk.Check{ID: "C13", Level: "model_checking", Run: runC13})
	chk.RegisterWorker("c13", workC13)
}

func runC13(c *chk.Ctx) {
	p := c13Params{Contexts: c13Contexts(true), Depth: 12}
	c.Pool.Workers = len(p.Contexts)
	r := c.Pool.Run("c13", p)
	c.Merge(r, "transitions")
	cnt := c.Counts()
	c.Cov["states"] = cnt["live_prefixes"] + cnt["completed_words"]
	c.Cov["transitions"] = cnt["transitions"] + cnt["terminator_transitions"]
	c.Cov["traces_validated_against_impl"] = cnt["transitions"] + cnt["terminator_transitions"]
	c.Cov["contexts"] = len(p.Contexts)
	c.Cov["depth_bound"] = p.Depth
	c.Cov["distinct_outcomes"] = map[string]int64{"live": cnt["out_live"], "completed": cnt["out_completed"], "rejected": cnt["out_rejected"],
		"terminator_accepted": cnt["term_accepted"], "terminator_rejected": cnt["term_rejected"]}
	c.Cov["rule"] = "BFS from each directive-start context over all 256 byte values + EOF; a state is a live keyword prefix; every (prefix, symbol) transition is executed on the real scanner and compared with the reference keyword set; every completed word is then followed by each of the 257 terminators"
	c.Cov["exhaustive"] = true
	c.Assumptions = append(c.Assumptions,
		"reference keyword set = the 30 keywords of JSight API 0.3 + codes 100-599 (internal/ref/keywords.go)",
		"a prefix is 'live' when the scanner consumed it without error and without completing a Keyword lexeme")
}

const c13Term = "\x00" // the scanner refuses byte 0 before evaluating it: scanning stops exactly after the prefix

func workC13(w *run.W) {
	var p c13Params
	json.Unmarshal(w.Params, &p)
	// directive table reachability (once, shard 0)
	tableWords := map[string]bool{}
	func() {
		defer func() { recover() }()
		for i := 0; i < 1000; i++ {
			tableWords[directive.Enumeration(i).String()] = false
		}
	}()
	for ci, cx := range p.Contexts {
		if !w.Mine(int64(ci)) {
			continue
		}
		c13Context(w, cx, p.Depth, tableWords)
	}
	// the one place where a directive start is decided by look-ahead: the line after free Description text. Every keyword
	// (and response code) written there must end the text and be reported as a keyword.
	if w.Shard == 0 && w.Only == "" && w.Begin("after-description-text") {
		words := append([]string{}, ref.Keywords...)
		for c := 100; c <= 599; c++ {
			words = append(words, fmt.Sprint(c))
		}
		for _, pre := range []string{"GET /a\nDescription\n  text\n", "GET /a\nDescription\n  two\n  lines\n\n", "TAG @t\nDescription\ntext\r\n"} {
			for _, wd := range words {
				for _, tail := range []string{" x\n", "\n", "", "// a\n", "/* a */\n", "# c\n", " // a\n"} {
					in := pre + "  " + wd + tail
					L := len(pre) + 2
					o := impl.Scan(in, 0)
					w.Count("terminator_transitions", 1)
					found := false
					for _, l := range o.Lex {
						if l.Type == "K" && l.Begin == L && l.End == L+len(wd)-1 {
							found = true
						}
					}
					if !found {
						w.Violation("C13", "keyword-after-description-text", fmt.Sprintf("the keyword %q on the line after free Description text is not reported as a directive (lexemes %v, error %v)\n%q", wd, o.Lex, o.Err, in), map[string]any{"input": in})
					}
				}
			}
		}
		w.End()
	}
	if w.Shard == 0 && w.Only == "" {
		if w.Begin("table-reachability") {
			for word := range tableWords {
				if word == "HTTP-response-code" {
					continue
				}
				if !ref.IsKeyword(word) {
					w.Violation("C13", "table-entry-not-a-keyword:"+word, "directive table has entry "+word+" that is not a keyword of the language", nil)
				}
			}
			for _, k := range ref.Keywords {
				if _, ok := tableWords[k]; !ok {
					w.Violation("C13", "keyword-missing-in-table:"+k, "keyword "+k+" missing in the directive table", nil)
				}
			}
			w.End()
		}
	}
}

type c13Outcome struct {
	class string // live, completed, rejected, other
	errAt int
	msg   string
	kwB   int
	kwE   int
	nKw   int
}

func c13Classify(ctxLen int, input string, eof bool) c13Outcome {
	in := input
	if !eof {
		in += c13Term
	}
	o := impl.Scan(in, 0)
	out := c13Outcome{errAt: -1, kwB: -1}
	for _, l := range o.Lex {
		if l.Begin >= ctxLen && l.Type == "K" {
			out.nKw++
			if out.kwB < 0 {
				out.kwB, out.kwE = l.Begin, l.End
			}
		}
	}
	if o.Panic != nil {
		out.class = "panic:" + o.Panic.Key()
		return out
	}
	if o.Err != nil {
		out.errAt = int(o.Err.Index)
		out.msg = o.Err.Msg
	}
	switch {
	case out.nKw > 0:
		out.class = "completed"
	case o.Err != nil && (eof || out.errAt < len(input)):
		out.class = "rejected"
	case eof && o.Err == nil:
		out.class = "eof-accepted"
	default:
		if strings.Contains(o.State, "|keyword-begin,|") {
			out.class = "live"
		} else {
			out.class = "neutral" // blanks, newlines, comments, parentheses: not inside a keyword
		}
	}
	return out
}

func c13Context(w *run.W, cx c13Ctx, depth int, table map[string]bool) {
	L := len(cx.Prefix)
	frontier := []string{""}
	var completed []string
	seenCompleted := map[string]bool{}
	for d := 1; d <= depth && len(frontier) > 0; d++ {
		var next []string
		for _, p := range frontier {
			id := fmt.Sprintf("%s/%q", cx.Name, p)
			if !w.Begin(id) {
				continue
			}
			if p != "" {
				w.Count("live_prefixes", 1)
			}
			for sym := 0; sym <= 256; sym++ {
				if sym == 0 {
					continue // byte 0 is the (always refused) stop marker; covered by C01/C12
				}
				if p == "" && sym == 256 {
					continue
				}
				eof := sym == 256
				word := p
				if !eof {
					word += string([]byte{byte(sym)})
				}
				if cx.Only != "" && p == "" && !strings.ContainsRune(cx.Only, rune(sym)) {
					continue // not a directive start in this context
				}
				if p == "" && !eof && strings.ContainsRune(cx.SkipFirst, rune(sym)) {
					continue
				}
				w.Count("transitions", 1)
				o := c13Classify(L, cx.Prefix+word, eof)
				var want string
				switch {
				case eof:
					want = "rejected"
				case ref.IsKeyword(word):
					want = "completed"
				case ref.IsKeywordPrefix(word):
					want = "live"
				case p == "" && sym == '(' && !cx.ParenOK:
					want = "rejected"
				case p == "" && strings.ContainsRune(" \t\r\n#()", rune(sym)):
					want = "neutral"
				default:
					want = "rejected"
				}
				w.Count("out_"+o.class, 1)
				bad := ""
				if o.class != want {
					bad = fmt.Sprintf("word %q in context %s: scanner says %s, language says %s", word, cx.Name, o.class, want)
				} else if want == "rejected" && o.errAt != L+len(p) {
					bad = fmt.Sprintf("word %q in context %s: error reported at byte %d, first deviating byte is %d", word, cx.Name, o.errAt, L+len(p))
				} else if want == "completed" && (o.kwB != L || o.kwE != L+len(word)-1 || o.nKw != 1) {
					bad = fmt.Sprintf("word %q in context %s: keyword lexeme [%d:%d] x%d, expected [%d:%d]", word, cx.Name, o.kwB, o.kwE, o.nKw, L, L+len(word)-1)
				}
				if bad != "" {
					w.Violation("C13", "trie:"+want+"->"+o.class, bad, map[string]any{"input": cx.Prefix + word, "msg": o.msg})
				}
				if o.class == "live" && want == "live" {
					next = append(next, word)
				}
				if o.class == "completed" && !seenCompleted[word] {
					seenCompleted[word] = true
					completed = append(completed, word)
				}
			}
			w.End()
		}
		frontier = next
	}
	if len(frontier) > 0 {
		w.Violation("C13", "trie:depth-exceeded", fmt.Sprintf("live prefixes remain at depth %d, e.g. %q", depth, frontier[0]), nil)
	}
	// terminators
	for _, word := range completed {
		id := fmt.Sprintf("%s/term/%q", cx.Name, word)
		if !w.Begin(id) {
			continue
		}
		w.Count("completed_words", 1)
		w.Nontrivial(cx.Name, word)
		if _, err := directive.NewDirectiveType(word); err != nil {
			w.Violation("C13", "accepted-word-unknown-to-table", fmt.Sprintf("scanner accepts %q but the directive table does not know it", word), nil)
		}
		if _, ok := table[word]; ok {
			table[word] = true
		}
		for sym := 1; sym <= 256; sym++ {
			eof := sym == 256
			in := cx.Prefix + word
			if !eof {
				in += string([]byte{byte(sym)})
			}
			w.Count("terminator_transitions", 1)
			o := c13Classify(L, in, eof)
			rejectedHere := o.errAt == L+len(word) && strings.Contains(o.msg, "after directive keyword")
			if strings.HasPrefix(o.class, "panic") {
				w.Violation("C13", o.class, fmt.Sprintf("panic scanning %q", in), nil)
				continue
			}
			accepted := o.nKw >= 1 && o.kwB == L && o.kwE == L+len(word)-1 && !rejectedHere
			if accepted {
				w.Count("term_accepted", 1)
			} else {
				w.Count("term_rejected", 1)
			}
			if accepted != ref.TerminatorOK(sym) {
				w.Violation("C13", fmt.Sprintf("terminator:%v", ref.TerminatorOK(sym)),
					fmt.Sprintf("keyword %q followed by symbol %d in context %s: accepted=%v, language says %v (err@%d %q)", word, sym, cx.Name, accepted, ref.TerminatorOK(sym), o.errAt, o.msg),
					map[string]any{"input": in})
			}
		}
		w.End()
	}
	w.Sample(map[string]any{"context": cx.Name, "completed_words": len(completed), "example_transition": cx.Prefix + "GE" + "T", "example_terminator_case": cx.Prefix + "GET#"})
}
