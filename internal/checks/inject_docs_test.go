package checks

import (
	"testing"

	"verif/internal/impl"
)

func TestInjectDocsAccepted(t *testing.T) {
	for i, d := range c01InjectDocs {
		if b := impl.BuildMem("root.jst", d); !b.OK() {
			t.Errorf("doc %d rejected: %+v", i, b.Err)
		}
	}
}
