package checks

import (
	"encoding/json"
	"fmt"
	"os"
	"os/exec"
	"path/filepath"
	"strings"

	"verif/internal/chk"
	"verif/internal/impl"
	"verif/internal/overlay"
	"verif/internal/run"
	"verif/shim/vos"
)

// C14 — INCLUDE stays inside the project (file-system accesses observed through the vos overlay, validated against
// strace on a sub-family) and include cycles are errors (all include graphs up to k files against a reference).

func init() {
	chk.Register(&chk.Check{ID: "C14", Level: "model_checking", Run: runC14})
	chk.RegisterWorker("c14params", workC14Params)
	chk.RegisterWorker("c14graphs", workC14Graphs)
}

type c14Params struct {
	Len1   int  `json:"len_alphabet1"` // strings over {a . / \} up to this length
	Len2   int  `json:"len_alphabet2"` // strings over {a . / \ ~ : space} up to this length
	Trace  bool `json:"trace"`         // print every case's accesses (for the strace conformance run)
	Only   int  `json:"only_every"`    // with Trace: run only every n-th case
	Files  int  `json:"files"`
	MaxOut int  `json:"max_out"`
	Dirs   bool `json:"dirs"`
	Case   bool `json:"case"` // file names that differ only by letter case
}

func stringsOver(alpha string, maxLen int) []string {
	var out []string
	var rec func(p string)
	rec = func(p string) {
		if len(p) > 0 {
			out = append(out, p)
		}
		if len(p) == maxLen {
			return
		}
		for i := 0; i < len(alpha); i++ {
			rec(p + string(alpha[i]))
		}
	}
	rec("")
	return out
}

func c14Strings(p c14Params) []string {
	seen := map[string]bool{}
	var out []string
	for _, s := range append(stringsOver(`a./\`, p.Len1), stringsOver(`a./\~: `, p.Len2)...) {
		if !seen[s] {
			seen[s] = true
			out = append(out, s)
		}
	}
	return out
}

// refusedByRule: the language refuses the name before touching the file system.
func refusedByRule(s string) (bool, string) {
	if s == "" {
		return true, "cannot be empty"
	}
	if strings.HasPrefix(s, "/") {
		return true, "cannot not start with `/`"
	}
	for _, seg := range strings.Split(s, "/") {
		if seg == "." || seg == ".." {
			return true, "cannot contain `..` or `.`"
		}
	}
	if strings.Contains(s, `\`) {
		return true, "directories must be separated by slashes `/`"
	}
	return false, ""
}

func c14Layout(dir string) string {
	proj := filepath.Join(dir, "proj")
	for _, d := range []string{"proj/aa", "proj/sub/aa", "aa", "proj/sub/sub"} {
		os.MkdirAll(filepath.Join(dir, d), 0o755)
	}
	files := map[string]string{
		"a": "TYPE @decoyOutside any\n", ".a": "TYPE @decoyHidden any\n", "aa/a": "TYPE @decoyOutside2 any\n",
		"proj/a": "TYPE @pa any\n", "proj/aa/a": "TYPE @paa any\n", "proj/.a": "TYPE @ph any\n", "proj/a.a": "TYPE @pdot any\n", "proj/a~": "TYPE @ptilde any\n",
		"proj/sub/a": "TYPE @sa any\n", "proj/sub/aa/a": "TYPE @saa any\n", "proj/sub/sub/a": "TYPE @ssa any\n",
	}
	for n, c := range files {
		os.WriteFile(filepath.Join(dir, n), []byte(c), 0o644)
	}
	return proj
}

func workC14Params(w *run.W) {
	var p c14Params
	json.Unmarshal(w.Params, &p)
	dir := workerDir(w)
	defer os.RemoveAll(dir)
	proj := c14Layout(dir)
	root := filepath.Join(proj, "root.jst")
	inc := filepath.Join(proj, "sub", "inc.jst")
	var idx int64
	for _, s := range c14Strings(p) {
		for _, quoted := range []bool{false, true} {
			for _, fromSub := range []bool{false, true} {
				idx++
				if !w.Mine(idx) {
					continue
				}
				if p.Trace && p.Only > 1 && idx%int64(p.Only) != 0 {
					continue
				}
				arg := s
				if quoted {
					arg = `"` + strings.ReplaceAll(strings.ReplaceAll(s, `\`, `\\`), `"`, `\"`) + `"`
				} else if strings.ContainsAny(s, " \"#") || strings.HasPrefix(s, "//") || strings.HasPrefix(s, "/*") {
					continue // not expressible as a bare parameter
				}
				id := fmt.Sprintf("param/%q/q%v/sub%v", s, quoted, fromSub)
				if !w.Begin(id) {
					continue
				}
				incl := root
				inclDir := proj
				if fromSub {
					os.WriteFile(root, []byte("JSIGHT 0.3\nINCLUDE sub/inc.jst\n"), 0o644)
					os.WriteFile(inc, []byte("# c\nINCLUDE "+arg+"\n"), 0o644)
					incl, inclDir = inc, filepath.Join(proj, "sub")
				} else {
					os.WriteFile(root, []byte("JSIGHT 0.3\n# c\nINCLUDE "+arg+"\n"), 0o644)
					os.Remove(inc)
				}
				if p.Trace {
					os.Stat(fmt.Sprintf("/__verif_case__/begin/%d", idx))
				}
				vos.Start()
				b := impl.BuildDisk(root)
				acc := vos.Stop()
				if p.Trace {
					os.Stat(fmt.Sprintf("/__verif_case__/end/%d", idx))
					var paths []string
					for _, a := range acc {
						paths = append(paths, a.Path)
					}
					w.Emit("vos", map[string]any{"case": idx, "paths": paths})
				}
				w.Count("cases", 1)
				w.Count("fs_accesses_observed", int64(len(acc)))
				w.Nontrivial(id)
				detail := map[string]any{"parameter": s, "quoted": quoted, "from_subdirectory": fromSub, "accesses": acc}
				if b.Panic != nil {
					w.Violation("C14", b.Panic.Key(), fmt.Sprintf("INCLUDE %s panics: %s", arg, b.Panic.Value), detail)
					w.End()
					continue
				}
				refused, refusal := refusedByRule(s)
				// 1. every access stays inside the including file's directory (or is the root / the including file)
				for _, a := range acc {
					ap := filepath.Clean(a.Path)
					if !filepath.IsAbs(ap) {
						cwd, _ := os.Getwd()
						ap = filepath.Join(cwd, ap)
					}
					if ap == root || ap == incl {
						continue
					}
					if refused {
						w.Violation("C14", "fs-access-for-refused-name", fmt.Sprintf("INCLUDE %s (from %s) must be refused before the file system is consulted, but %s %q was observed", arg, relTo(dir, incl), a.Op, relTo(dir, ap)), detail)
						break
					}
					if !strings.HasPrefix(ap, inclDir+string(filepath.Separator)) {
						w.Violation("C14", "fs-access-outside-including-directory", fmt.Sprintf("INCLUDE %s (from %s): %s %q is outside the including file's directory", arg, relTo(dir, incl), a.Op, relTo(dir, ap)), detail)
						break
					}
				}
				// 2. verdict
				wantLine := 3
				if fromSub {
					wantLine = 2
				}
				refusals := []string{"cannot be empty", "cannot not start with `/`", "cannot contain `..` or `.`", "directories must be separated by slashes `/`"}
				isRefusal := false
				if b.Err != nil {
					for _, r := range refusals {
						if strings.Contains(b.Err.Msg, r) {
							isRefusal = true
						}
					}
				}
				locOK := b.Err != nil && strings.HasSuffix(b.Err.File, relTo(proj, incl)) && int(b.Err.Line) == wantLine
				_ = refusal
				if refused {
					w.Count("refused_names", 1)
					if !isRefusal {
						w.Violation("C14", "refusal-missing", fmt.Sprintf("INCLUDE %s (from %s) should be refused (%s); got %s", arg, relTo(dir, incl), refusal, errMsg(b.Err)), detail)
					} else if !locOK {
						w.Violation("C14", "refusal-location", fmt.Sprintf("refusal of INCLUDE %s located at %s:%d, the INCLUDE is at %s:%d", arg, b.Err.File, b.Err.Line, relTo(proj, incl), wantLine), detail)
					}
				} else if isRefusal {
					// stricter than the rule (e.g. a segment that merely ends with a dot): safe, as long as nothing was touched
					w.Count("refused_beyond_the_rule", 1)
					for _, a := range acc {
						if ap := filepath.Clean(a.Path); ap != root && ap != incl {
							w.Violation("C14", "fs-access-for-refused-name", fmt.Sprintf("INCLUDE %s refused, but %s %q was observed", arg, a.Op, a.Path), detail)
						}
					}
					if !locOK {
						w.Violation("C14", "refusal-location", fmt.Sprintf("refusal of INCLUDE %s located at %s:%d, the INCLUDE is at %s:%d", arg, b.Err.File, b.Err.Line, relTo(proj, incl), wantLine), detail)
					}
				} else {
					target := filepath.Join(inclDir, s)
					st, err := os.Stat(target)
					switch {
					case err != nil:
						w.Count("missing_targets", 1)
						if b.Err == nil || !strings.Contains(b.Err.Msg, "incorrect parameter (Filename)") || !locOK {
							w.Violation("C14", "missing-file-verdict", fmt.Sprintf("INCLUDE %s (from %s): target does not exist; got %s at line %d", arg, relTo(dir, incl), errMsg(b.Err), errLine(b.Err)), detail)
						}
					case st.IsDir():
						w.Count("directory_targets", 1)
						if b.Err == nil || !strings.Contains(b.Err.Msg, "is a directory") || !locOK {
							w.Violation("C14", "directory-verdict", fmt.Sprintf("INCLUDE %s (from %s): target is a directory; got %s at line %d", arg, relTo(dir, incl), errMsg(b.Err), errLine(b.Err)), detail)
						}
					default:
						w.Count("existing_targets", 1)
						if b.Err != nil {
							w.Violation("C14", "existing-file-rejected", fmt.Sprintf("INCLUDE %s (from %s): target exists inside the project, got %s", arg, relTo(dir, incl), errMsg(b.Err)), detail)
						}
					}
				}
				if idx%5000 == 3 {
					w.Sample(map[string]any{"include_parameter": s, "quoted": quoted, "from_subdirectory": fromSub, "accesses": acc})
				}
				w.End()
			}
		}
	}
}

func errLine(e *impl.ErrObs) int {
	if e == nil {
		return 0
	}
	return int(e.Line)
}

func relTo(dir, p string) string {
	if r, err := filepath.Rel(dir, p); err == nil {
		return r
	}
	return p
}

// workC14Graphs: all include graphs on k files (targets also: missing file, directory) against the reference. With
// Dirs the files live in two directories and share base names (root.jst, a.jst, sub/a.jst, sub/b.jst), so that the same
// written name means different files depending on the including file's directory.
func workC14Graphs(w *run.W) {
	var p c14Params
	json.Unmarshal(w.Params, &p)
	dir := workerDir(w)
	defer os.RemoveAll(dir)
	var nodes []string
	if p.Dirs {
		nodes = []string{"root.jst", "a.jst", "sub/a.jst", "sub/b.jst"}
	} else if p.Case {
		nodes = []string{"root.jst", "types.jst", "Types.jst", "TYPES.JST"}
	} else {
		for i := 0; i < p.Files; i++ {
			nodes = append(nodes, fmt.Sprintf("f%d.jst", i))
		}
	}
	n := len(nodes)
	const missing, directory = -1, -2
	type tgt struct {
		written string
		node    int
	}
	dirOf := func(f string) string {
		if i := strings.LastIndex(f, "/"); i >= 0 {
			return f[:i+1]
		}
		return ""
	}
	targetsOf := make([][]tgt, n)
	for i, f := range nodes {
		d := dirOf(f)
		for j, g := range nodes {
			if strings.HasPrefix(g, d) {
				targetsOf[i] = append(targetsOf[i], tgt{strings.TrimPrefix(g, d), j})
			}
		}
		targetsOf[i] = append(targetsOf[i], tgt{"missing.jst", missing}, tgt{"adir", directory})
	}
	listsOf := make([][][]tgt, n)
	total := 1
	for i := range nodes {
		ll := [][]tgt{nil}
		for _, a := range targetsOf[i] {
			ll = append(ll, []tgt{a})
		}
		if p.MaxOut >= 2 {
			for _, a := range targetsOf[i] {
				for _, b := range targetsOf[i] {
					ll = append(ll, []tgt{a, b})
				}
			}
		}
		listsOf[i] = ll
		total *= len(ll)
	}
	for c := 0; c < total; c++ {
		if !w.Mine(int64(c)) || !w.Begin(fmt.Sprintf("graph/%v%v/%d/%d", p.Dirs, p.Case, n, c)) {
			continue
		}
		graph := make([][]tgt, n)
		x := c
		pr := impl.Project{Files: map[string]string{}, Root: nodes[0], Dirs: []string{"adir", "sub/adir"}}
		line := make([][]int, n)
		for i := 0; i < n; i++ {
			graph[i] = listsOf[i][x%len(listsOf[i])]
			x /= len(listsOf[i])
			var b strings.Builder
			ln := 1
			if i == 0 {
				b.WriteString("JSIGHT 0.3\n")
				ln++
			}
			fmt.Fprintf(&b, "# file %d\n", i)
			ln++
			for _, t := range graph[i] {
				fmt.Fprintf(&b, "INCLUDE %s\n", t.written)
				line[i] = append(line[i], ln)
				ln++
			}
			pr.Files[nodes[i]] = b.String()
		}
		// reference: first error in include-processing order
		verdict, vfile, vline := "accept", "", 0
		var sim func(f int, stack []int) bool
		sim = func(f int, stack []int) bool {
			for k, t := range graph[f] {
				switch t.node {
				case missing:
					verdict, vfile, vline = "missing", nodes[f], line[f][k]
					return false
				case directory:
					verdict, vfile, vline = "directory", nodes[f], line[f][k]
					return false
				}
				onStack := t.node == f
				for _, s := range stack {
					if s == t.node {
						onStack = true
					}
				}
				if onStack {
					verdict = "recursion"
					return false
				}
				if !sim(t.node, append(append([]int{}, stack...), f)) {
					return false
				}
			}
			return true
		}
		sim(0, nil)
		b := pr.Build(dir)
		w.Count("graphs", 1)
		w.Count("ref_"+verdict, 1)
		w.Nontrivial(showProject(pr))
		detail := map[string]any{"project": pr, "reference_verdict": verdict}
		switch {
		case b.Panic != nil:
			w.Violation("C14", b.Panic.Key(), "include graph panics: "+b.Panic.Value+"\n"+showProject(pr), detail)
		case verdict == "accept":
			if b.Err != nil {
				w.Violation("C14", "acyclic-graph-rejected", fmt.Sprintf("include graph without a cycle (repeated inclusion only) rejected: %s (%s:%d)\n%s", b.Err.Msg, b.Err.File, b.Err.Line, showProject(pr)), detail)
			}
		case verdict == "recursion":
			if b.Err == nil {
				w.Violation("C14", "cycle-accepted", "include cycle accepted\n"+showProject(pr), detail)
			} else if !strings.Contains(b.Err.Msg, "recursion") {
				w.Violation("C14", "cycle-other-error", fmt.Sprintf("include cycle reported as %q instead of the recursion error\n%s", b.Err.Msg, showProject(pr)), detail)
			}
		default:
			want := map[string]string{"missing": "does not exist", "directory": "is a directory"}[verdict]
			if b.Err == nil || !strings.Contains(b.Err.Msg, want) {
				w.Violation("C14", verdict+"-target-verdict", fmt.Sprintf("expected %q at %s:%d, got %s\n%s", want, vfile, vline, errMsg(b.Err), showProject(pr)), detail)
			} else if b.Err.File != vfile || int(b.Err.Line) != vline {
				w.Violation("C14", verdict+"-target-location", fmt.Sprintf("%q located at %s:%d, the INCLUDE is at %s:%d\n%s", b.Err.Msg, b.Err.File, b.Err.Line, vfile, vline, showProject(pr)), detail)
			}
		}
		// the same project opened through a relative root path (bare name from its directory; path from the parent
		// directory): same verdict, same file, same line
		if b.Panic == nil {
			for _, sp := range [][2]string{{dir, nodes[0]}, {filepath.Dir(dir), filepath.Base(dir) + "/" + nodes[0]},
				{dir, "./" + nodes[0]}, {"/", dir + "//" + nodes[0]}, {"/", dir + "/./" + nodes[0]}} {
				if err := os.Chdir(sp[0]); err != nil {
					continue
				}
				b2 := impl.BuildDisk(sp[1])
				os.Chdir("/")
				w.Count("relative_root_builds", 1)
				cls := func(e *impl.ErrObs, normalised bool) string {
					if e == nil {
						return "accept"
					}
					f := e.File
					if normalised {
						f = filepath.Join(dir, f)
					} else if !filepath.IsAbs(f) {
						f = filepath.Join(sp[0], f)
					}
					m := e.Msg
					for _, k := range []string{"recursion", "does not exist", "is a directory"} {
						if strings.Contains(m, k) {
							m = k
						}
					}
					return fmt.Sprintf("%s at %s:%d", m, relTo(dir, f), e.Line)
				}
				if b2.Panic != nil {
					w.Violation("C14", b2.Panic.Key(), "include graph opened through a relative root path panics: "+b2.Panic.Value+"\n"+showProject(pr), detail)
				} else if cls(b.Err, true) != cls(b2.Err, false) {
					w.Violation("C14", "relative-root-differs", fmt.Sprintf("root opened as %q from %s: %s; opened by absolute path: %s\n%s", sp[1], map[bool]string{true: "its directory", false: "the parent directory"}[sp[0] == dir]+" (cwd "+sp[0]+")", cls(b2.Err, false), cls(b.Err, true), showProject(pr)), detail)
				}
			}
		}
		if c == 4321 {
			w.Sample(map[string]any{"include_graph": pr.Files, "reference_verdict": verdict})
		}
		w.End()
	}
}

func runC14(c *chk.Ctx) {
	p := c14Params{Len1: chk.Pick(c, 6, 7), Len2: chk.Pick(c, 4, 5)}
	exe, nfiles, err := overlay.Build("vos", overlay.RewriteImport("os", "os", "verif/shim/vos"))
	if err != nil {
		c.Incomplete = append(c.Incomplete, "vos overlay variant could not be built: "+err.Error())
		fmt.Fprintln(os.Stderr, err)
		c.Cov["explanation"] = "overlay build failed"
		c.Violation("machinery:vos-build", "the os->vos overlay build failed; C14(i) cannot observe file-system accesses", "", nil, "", nil)
		return
	}
	c.Cov["vos_overlay_files_rewritten"] = nfiles
	pool := *c.Pool
	pool.Exe = exe
	r := pool.Run("c14params", p)
	c.Merge(r, "cases")
	// strace conformance of the observer on a sub-family
	conf := c14Strace(c, exe, p)
	c.Cov["strace_conformance"] = conf
	pg := c14Params{Files: chk.Pick(c, 3, 4), MaxOut: 2}
	r2 := c.Pool.Run("c14graphs", pg)
	c.Merge(r2, "graphs")
	r4 := c.Pool.Run("c14graphs", c14Params{Dirs: true, MaxOut: chk.Pick(c, 1, 2)})
	r5 := c.Pool.Run("c14graphs", c14Params{Case: true, MaxOut: chk.Pick(c, 1, 2)})
	c.Merge(r5, "graphs")
	c.Merge(r4, "graphs")
	if !c.Quick() {
		r3 := c.Pool.Run("c14graphs", c14Params{Files: 5, MaxOut: 1})
		c.Merge(r3, "graphs")
	}
	cnt := c.Counts()
	c.Cov["states"] = cnt["graphs"]
	c.Cov["transitions"] = cnt["cases"] + cnt["graphs"]
	c.Cov["traces_validated_against_impl"] = cnt["cases"] + cnt["graphs"]
	c.Cov["params"] = map[string]any{"strings": p, "graphs": pg}
	c.Cov["distinct_outcomes"] = map[string]int64{"refused": cnt["refused_names"], "missing": cnt["missing_targets"], "directory": cnt["directory_targets"], "existing": cnt["existing_targets"],
		"graph_accept": cnt["ref_accept"], "graph_recursion": cnt["ref_recursion"], "graph_missing": cnt["ref_missing"], "graph_directory": cnt["ref_directory"]}
	c.Cov["rule"] = "(i) every parameter string over {a . / \\} up to the length bound and over {a . / \\ ~ : space} up to a shorter bound, bare and quoted, INCLUDEd from the root and from a file in a sub-directory, on a directory layout with decoy files outside the project; every file-system access of the library (package os replaced by a recording shim in jsight-api-core and jsight-schema-core through a build overlay) must be the root file, the including file, or lie in the including file's directory; names with a '.'/'..' segment, absolute names and backslashes must be refused without any access. The shim is validated against strace on every n-th case. (ii) every include graph on k files with <= 2 ordered includes per file (targets: the files, a missing file, a directory), compared with a reference include expansion (recursion error iff a file is re-entered while on the stack); the same on four files in two directories that share base names (the same written name denotes different files from different directories)."
}

// c14Strace runs every n-th case under strace and compares the project-relevant paths with the shim's log.
func c14Strace(c *chk.Ctx, exe string, p c14Params) map[string]any {
	res := map[string]any{}
	if _, err := exec.LookPath("strace"); err != nil {
		res["available"] = false
		c.Assumptions = append(c.Assumptions, "strace not available: the vos shim's completeness (it only sees calls made through package os) is not cross-checked on this run")
		return res
	}
	tmp := filepath.Join(c.Pool.TmpDir, "strace")
	os.MkdirAll(tmp, 0o755)
	logf := filepath.Join(tmp, "strace.log")
	pp := p
	pp.Trace = true
	pp.Only = 97
	pj, _ := json.Marshal(pp)
	cur, hs := filepath.Join(tmp, "cur"), filepath.Join(tmp, "hs")
	cmd := exec.Command("strace", "-f", "-qq", "-e", "trace=%file", "-o", logf, exe, "worker", "c14params", "0", "1", string(pj), cur, hs, "", "")
	cmd.Env = append(os.Environ(), "VERIF_TMP="+tmp, "GOMAXPROCS=2")
	out, err := cmd.Output()
	if err != nil {
		res["available"] = false
		res["error"] = err.Error()
		c.Assumptions = append(c.Assumptions, "strace could not trace the worker ("+err.Error()+"): shim completeness not cross-checked on this run")
		return res
	}
	res["available"] = true
	shim := map[string][]string{}
	for _, l := range strings.Split(string(out), "\n") {
		if strings.HasPrefix(l, "E vos ") {
			var m struct {
				Case  int64    `json:"case"`
				Paths []string `json:"paths"`
			}
			if json.Unmarshal([]byte(l[6:]), &m) == nil {
				shim[fmt.Sprint(m.Case)] = m.Paths
			}
		}
	}
	lb, _ := os.ReadFile(logf)
	cur2 := ""
	sys := map[string][]string{}
	for _, l := range strings.Split(string(lb), "\n") {
		q1 := strings.Index(l, `"`)
		if q1 < 0 {
			continue
		}
		q2 := strings.Index(l[q1+1:], `"`)
		if q2 < 0 {
			continue
		}
		path := l[q1+1 : q1+1+q2]
		switch {
		case strings.HasPrefix(path, "/__verif_case__/begin/"):
			cur2 = strings.TrimPrefix(path, "/__verif_case__/begin/")
		case strings.HasPrefix(path, "/__verif_case__/end/"):
			cur2 = ""
		case cur2 != "":
			sys[cur2] = append(sys[cur2], path)
		}
	}
	cases, mismatches := 0, 0
	for k, sp := range shim {
		cases++
		a, b := map[string]bool{}, map[string]bool{}
		for _, x := range sp {
			a[filepath.Clean(x)] = true
		}
		for _, x := range sys[k] {
			b[filepath.Clean(x)] = true
		}
		same := len(a) == len(b)
		for x := range a {
			if !b[x] {
				same = false
			}
		}
		if !same {
			mismatches++
			if mismatches <= 3 {
				c.Violation("observer-mismatch", fmt.Sprintf("case %s: the library touched %v according to strace, the vos shim recorded %v: an access bypasses package os", k, keys(b), keys(a)), "c14params", pp, "", nil)
			}
		}
	}
	res["cases_compared"] = cases
	res["mismatches"] = mismatches
	os.RemoveAll(tmp)
	return res
}

func keys(m map[string]bool) []string {
	var o []string
	for k := range m {
		o = append(o, k)
	}
	return o
}
