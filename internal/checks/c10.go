package checks

import (
	"encoding/json"
	"fmt"
	"os"
	"strings"

	"github.com/jsightapi/jsight-schema-core/fs"

	"github.com/jsightapi/jsight-api-core/core"

	"verif/internal/chk"
	"verif/internal/dt"
	"verif/internal/impl"
	"verif/internal/model"
	"verif/internal/oj"
	"verif/internal/ref"
	"verif/internal/run"
)

// C10 — PASTE transparency: (a) every way of abstracting a sibling run of a corpus document into a MACRO+PASTE
// (one macro, two macros, nested macro, definition before/after use); (b) all macro call graphs up to k macros.

func init() {
	chk.Register(&chk.Check{ID: "C10", Level: "exploration", Run: runC10})
	chk.RegisterWorker("c10abs", workC10Abs)
	chk.RegisterWorker("c10graphs", workC10Graphs)
	chk.RegisterWorker("c10models", workC10Models)
	chk.RegisterWorker("c10shared", workC10Shared)
}

// workC10Models: generated models — the in-place rendering against every MACRO+PASTE abstraction of every sibling run
// (one and two macros, definition before / after use); differential oracle: identical ToJson bytes.
func workC10Models(w *run.W) {
	var p struct {
		Budget int `json:"budget"`
	}
	json.Unmarshal(w.Params, &p)
	pal := model.DefaultPalette()
	idx := int64(-1)
	model.EnumDocs(pal, p.Budget, 0, func(d *model.Doc) {
		idx++
		if !w.Mine(idx) || !w.Begin(fmt.Sprintf("model%d", idx)) {
			return
		}
		defer w.End()
		var base string
		lay := canonGlobal.Layout()
		lay.Only = map[string]bool{"move": true}
		dt.EnumLayouts(func(l *dt.Layout) *dt.File {
			f := d.ToTree(l)
			for step := 0; step < 2; step++ {
				var mm []move
				for _, m := range listMoves(f) {
					if m.Kind != 2 {
						mm = append(mm, m)
					}
				}
				if len(mm) == 0 {
					break
				}
				k := l.Choose("move", 1+len(mm))
				if k == 0 {
					break
				}
				f = applyMove(f, mm[k-1], step)
			}
			return f
		}, lay, 2, func(f *dt.File, r *dt.Rendered, l *dt.Layout) bool {
			if !dt.Legal(f.Nodes, explicitOf(r)) {
				return true
			}
			txt := r.Files[r.Root]
			b := impl.BuildMem("root.jst", txt)
			w.Count("abstractions", 1)
			obs := "ERR " + b.Err.Tuple()
			if b.Panic != nil {
				obs = "PANIC " + b.Panic.Value
			} else if b.Err == nil {
				obs = impl.ToJson(&b.J).String()
			}
			if l.Cost() == 0 {
				base = obs
				return true
			}
			w.Nontrivial(txt)
			if obs != base {
				w.Violation("C10", "model-macro-form-differs", fmt.Sprintf("the macro form of a generated document differs from the in-place form: %s\n%s", firstDiff(obs, base), trunc(txt, 1500)), map[string]any{"macro_form": txt})
			}
			return true
		})
	})
}

type c10Params struct {
	AllRuns  bool `json:"all_runs"`
	MaxRun   int  `json:"max_run_len"` // with AllRuns: runs of at most this many siblings (plus the whole sibling list)
	MaxBytes int  `json:"max_bytes"`
	Macros   int  `json:"macros"`
}

// expandedTree returns VerifTree(expanded) without coordinates, or nil on error.
func expandedTree(text string) (tree []string, ok bool) {
	defer func() {
		if recover() != nil {
			ok = false
		}
	}()
	c := core.NewJApiCore(fs.NewFile("root.jst", text))
	if je := c.BuildCatalog(); je != nil {
		return nil, false
	}
	return c.VerifTree(true, false), true
}

// macroForm rewrites text: each cut (disjoint or nested, sorted by start) becomes PASTE @vmK; definitions are placed
// right after the JSIGHT line (before=true) or at the end of the document.
func macroForm(text string, cuts []cut, before bool, jsightEnd int) string {
	name := func(i int) string { return fmt.Sprintf("@vm%d", i) }
	var body func(s, e, self int) string
	body = func(s, e, self int) string {
		var b strings.Builder
		pos := s
		for i, c := range cuts {
			if i == self || c.s < s || c.e > e || c.s < pos {
				continue
			}
			direct := true
			for j, o := range cuts {
				if j != i && j != self && o.s >= s && o.e <= e && o.s <= c.s && c.e <= o.e && !(o.s == c.s && o.e == c.e) {
					direct = false
				}
			}
			if !direct {
				continue
			}
			b.WriteString(text[pos:c.s])
			b.WriteString(indentOf(text, c.s) + "PASTE " + name(i) + "\n")
			pos = c.e
		}
		b.WriteString(text[pos:e])
		return b.String()
	}
	var defs strings.Builder
	for i, c := range cuts {
		defs.WriteString("MACRO " + name(i) + "\n(\n" + body(c.s, c.e, i) + ")\n")
	}
	main := body(0, len(text), -1)
	if before {
		// jsightEnd is an offset of the original text that lies before every cut
		return main[:jsightEnd] + defs.String() + main[jsightEnd:]
	}
	return main + defs.String()
}

func workC10Abs(w *run.W) {
	var p c10Params
	json.Unmarshal(w.Params, &p)
	var cidx int64
	for fi, f := range corpusFiles() {
		raw, _ := os.ReadFile(f)
		text := string(raw)
		if strings.Contains(text, "\r") || hasInclude(text) || len(text) > p.MaxBytes || strings.Contains(text, "\x00") {
			continue
		}
		if !strings.HasSuffix(text, "\n") {
			text += "\n"
		}
		if strings.Contains(text, "@vm") {
			continue
		}
		orig := impl.BuildMem("root.jst", text)
		if orig.Panic != nil || orig.Err != nil {
			continue
		}
		ds, ok := analyse(text)
		if !ok || len(ds.dirs) == 0 || ds.kindOf(0) != "JSIGHT" {
			continue
		}
		j := impl.ToJson(&orig.J)
		if j.Err != "" || j.Panic != nil {
			continue
		}
		origJSON := j.Out
		origTree, okT := expandedTree(text)
		if w.Shard == 0 {
			w.Count("documents", 1)
		}
		_, jsightEnd := ds.extent(0, 0)
		// eligible runs
		type erun struct {
			c      cut
			a, b   int
			atRoot bool
		}
		var runs []erun
		for _, par := range append([]int{-1}, seq(len(ds.dirs))...) {
			parKind := ""
			if par >= 0 {
				parKind = ds.kindOf(par)
				// inside a MACRO definition the directives are expanded elsewhere: abstracting there is still legal
			}
			hoist := false
			if !ref.Admits(parKind, "PASTE") {
				// PASTE written under a directive that does not admit it attaches higher up, while the pasted directives
				// still land in the (implicit, still open) context: legal when the run ends the parent's children and no
				// explicit context is crossed
				if par < 0 || ds.syms[ds.dirSym[par]].Explicit {
					continue
				}
				gk := ""
				if g := ds.parents[par]; g >= 0 {
					gk = ds.kindOf(g)
				}
				if !ref.Admits(gk, "PASTE") {
					continue
				}
				hoist = true
			}
			kids := ds.children(par)
			for a := 0; a < len(kids); a++ {
				for b := a; b < len(kids); b++ {
					if !p.AllRuns && b-a > 1 && !(a <= 1 && b == len(kids)-1) {
						continue
					}
					if p.AllRuns && p.MaxRun > 0 && b-a >= p.MaxRun && !(a <= 1 && b == len(kids)-1) {
						continue
					}
					sibs := kids[a : b+1]
					if !ds.contiguous(sibs) || (hoist && b != len(kids)-1) {
						continue
					}
					ok := true
					for _, s := range sibs {
						k := ds.kindOf(s)
						if !ref.Admits("MACRO", k) || k == "MACRO" {
							ok = false
						}
					}
					if !ok {
						continue
					}
					s, e := ds.extent(sibs[0], sibs[len(sibs)-1])
					if s < jsightEnd || e <= s {
						continue
					}
					// the reference automaton must keep every directive of the run inside the MACRO subtree
					mt := "JSIGHT 0.3\nMACRO @vmx\n(\n" + text[s:e] + ")\n"
					if ms, ok := analyse(mt); !ok || len(ms.children(1)) != len(sibs) || len(ms.children(-1)) != 2 {
						w.Count("ineligible_runs", 1)
						continue
					}
					runs = append(runs, erun{cut{s, e}, sibs[0], sibs[len(sibs)-1], par == -1})
				}
			}
		}
		try := func(name string, cuts []cut, before bool) {
			cidx++
			if !w.Mine(cidx) || !w.Begin(fmt.Sprintf("%s/%s/%d", f, name, cidx)) {
				return
			}
			defer w.End()
			mt := macroForm(text, cuts, before, jsightEnd)
			w.Count("abstractions", 1)
			w.Nontrivial(mt)
			b := impl.BuildMem("root.jst", mt)
			detail := map[string]any{"file": f, "macro_form": trunc(mt, 4000)}
			if b.Panic != nil {
				w.Violation("C10", b.Panic.Key(), "macro form panics: "+b.Panic.Value+"\n"+trunc(mt, 1500), detail)
				return
			}
			if b.Err != nil {
				w.Violation("C10", "macro-form-rejected:"+errClass(b.Err.Msg), fmt.Sprintf("%s is accepted; with a sibling run moved into MACRO+PASTE it is rejected: %s (line %d)\n%s", f, b.Err.Msg, b.Err.Line, trunc(mt, 1800)), detail)
				return
			}
			jj := impl.ToJson(&b.J)
			if jj.Out != origJSON {
				ja, _ := oj.ParseOrdered([]byte(origJSON))
				jb, _ := oj.ParseOrdered([]byte(jj.Out))
				w.Violation("C10", "catalog-changed:"+diffClass(oj.Diff(ja, jb, "")), fmt.Sprintf("%s: the macro form yields another catalog: %s\n%s", f, oj.Diff(ja, jb, ""), trunc(mt, 1800)), detail)
				return
			}
			if okT {
				if mtree, ok := expandedTree(mt); ok && strings.Join(mtree, " ") != strings.Join(origTree, " ") {
					w.Violation("C10", "expanded-tree-differs", fmt.Sprintf("%s: directive tree after PASTE expansion differs from the in-place tree\n got  %v\n want %v\n%s", f, mtree, origTree, trunc(mt, 1500)), detail)
				}
			}
		}
		for i, r := range runs {
			try("one-macro-after", []cut{r.c}, false)
			try("one-macro-before", []cut{r.c}, true)
			// nested macro: a run inside this run
			for k, q := range runs {
				if k != i && q.c.s >= r.c.s && q.c.e <= r.c.e && !(q.c.s == r.c.s && q.c.e == r.c.e) {
					try("nested-macro", []cut{r.c, q.c}, k%2 == 0)
					break
				}
			}
			// two macros: the next disjoint run
			for k := i + 1; k < len(runs); k++ {
				if runs[k].c.s >= r.c.e {
					try("two-macros", []cut{r.c, runs[k].c}, k%2 == 0)
					break
				}
			}
		}
		if fi%113 == 0 && len(runs) > 0 && w.Shard == 0 {
			w.Sample(map[string]any{"file": f, "macro_form": trunc(macroForm(text, []cut{runs[0].c}, false, jsightEnd), 600)})
		}
	}
}

// workC10Shared: one MACRO pasted from two or three places against the document with the body written out at each place.
func workC10Shared(w *run.W) {
	runs := []string{
		"  GET\n    Path\n    {\"id\": 1}\n    200 any\n",
		"  GET\n    200 any\n  POST\n    Request any\n    201 any\n",
		"  DELETE\n    Description\n      some text\n    204 empty\n",
		"  GET\n    Query\n    {\"q\": 1}\n    200\n      Headers\n      {\"h\": \"1\"}\n      Body @T\n",
		"  PUT\n    200 @T\n  PATCH\n    Request @T\n    200 [@T]\n",
	}
	parents := [][]string{
		{"URL /cats/{id}\n", "URL /dogs/{id}\n"},
		{"URL /cats/{id}\n", "URL /dogs/{id}\n", "URL /pigs/{id}\n"},
		{"URL /a/{id}\n(\n", "URL /b/{id}\n(\n"},
	}
	head := "JSIGHT 0.3\nTAG @t\nTYPE @T\n  {\"x\": 1}\n"
	respRuns := []string{"  404 any\n  500 @T\n", "  Description\n    shared text\n  200 any\n", "  Query\n  {\"q\": 2}\n  200 any\n"}
	methods := []string{"GET /m1\n", "POST /m2\n", "DELETE /m3/{id}\n"}
	type cs struct{ name, inplace, macro string }
	var cases []cs
	mk := func(name string, places []string, run string, closers bool) {
		for _, where := range []int{0, 1, 2} {
			before := where == 0
			if where == 2 && strings.HasSuffix(places[0], "(\n") {
				continue
			}
			var u, m strings.Builder
			u.WriteString(head)
			m.WriteString(head)
			def := "MACRO @shared\n(\n" + run + ")\n"
			if before {
				m.WriteString(def)
			}
			for pi, p := range places {
				u.WriteString(p + run)
				if where == 2 && pi == 0 {
					// the definition is written between the line of the first parent and what is pasted under it: a MACRO
					// definition contributes nothing wherever it stands, the PASTE still lands in that parent
					m.WriteString(p + def + "  PASTE @shared\n")
					continue
				}
				m.WriteString(p + "  PASTE @shared\n")
				if strings.HasSuffix(p, "(\n") {
					u.WriteString(")\n")
					m.WriteString(")\n")
				}
			}
			if where == 1 {
				m.WriteString(def)
			}
			cases = append(cases, cs{fmt.Sprintf("%s/def-%s", name, []string{"before", "after", "inside-first-parent"}[where]), u.String(), m.String()})
		}
	}
	for ri, r := range runs {
		for pi, ps := range parents {
			mk(fmt.Sprintf("shared-macro/run%d/parents%d", ri, pi), ps, r, true)
		}
	}
	for ri, r := range respRuns {
		mk(fmt.Sprintf("shared-macro/resp%d", ri), methods, r, false)
	}
	// a macro pasted twice inside another macro, which is pasted twice
	cases = append(cases, cs{"shared-macro/nested-twice",
		head + "GET /n1\n  404 any\n  500 @T\n  200 any\nPOST /n2\n  404 any\n  500 @T\n  200 any\n",
		head + "MACRO @errs\n(\n  404 any\n  500 @T\n)\nMACRO @all\n(\n  PASTE @errs\n  200 any\n)\nGET /n1\n  PASTE @all\nPOST /n2\n  PASTE @all\n"})
	// the name of the inner macro is the beginning of the name of the outer one (and the other way round)
	cases = append(cases, cs{"shared-macro/names-that-contain-each-other",
		head + "GET /n1\n  404 any\n  500 @T\n  200 any\nPOST /n2\n  404 any\n  500 @T\n  200 any\nPUT /n3\n  404 any\n  201 any\n",
		head + "MACRO @errors\n(\n  404 any\n)\nMACRO @errors_all\n(\n  PASTE @errors\n  500 @T\n)\nMACRO @m1\n(\n  PASTE @m10\n  201 any\n)\nMACRO @m10\n(\n  404 any\n)\nGET /n1\n  PASTE @errors_all\n  200 any\nPOST /n2\n  PASTE @errors_all\n  200 any\nPUT /n3\n  PASTE @m1\n"})
	// a nested PASTE whose last pasted directive takes the directives that follow it in the outer macro body as children
	cases = append(cases, cs{"shared-macro/nested-paste-then-children",
		head + "URL /h1\n  POST\n    Request any\n    201 any\nURL /h2\n  GET\n    Query\n    {\"q\": 1}\n    200 any\n",
		head + "MACRO @post\n(\n  POST\n)\nMACRO @postr\n(\n  PASTE @post\n    Request any\n    201 any\n)\nMACRO @get\n(\n  GET\n)\nMACRO @getq\n(\n  PASTE @get\n    Query\n    {\"q\": 1}\n    200 any\n)\nURL /h1\n  PASTE @postr\nURL /h2\n  PASTE @getq\n"})
	for i, c := range cases {
		if !w.Mine(int64(i)) || !w.Begin(c.name) {
			continue
		}
		w.Count("abstractions", 1)
		w.Count("shared_macro_cases", 1)
		w.Nontrivial(c.macro)
		a, b := impl.BuildMem("root.jst", c.inplace), impl.BuildMem("root.jst", c.macro)
		oa, ob := "ERR "+a.Err.Tuple(), "ERR "+b.Err.Tuple()
		if a.Err == nil && a.Panic == nil {
			oa = impl.ToJson(&a.J).String()
		}
		if b.Err == nil && b.Panic == nil {
			ob = impl.ToJson(&b.J).String()
		}
		if a.Err != nil {
			w.Violation("C10", "harness:shared-macro-document-invalid", c.name+": the in-place document is rejected: "+a.Err.Msg+"\n"+c.inplace, nil)
		} else if oa != ob {
			w.Violation("C10", "shared-macro", fmt.Sprintf("%s: a macro pasted from several places does not give the catalog of the body written out: %s\n%s", c.name, firstDiff(ob, oa), c.macro), map[string]any{"macro_form": c.macro, "in_place": c.inplace})
		}
		w.End()
	}
}

func seq(n int) []int {
	o := make([]int, n)
	for i := range o {
		o[i] = i
	}
	return o
}

// workC10Graphs: all PASTE graphs over k macros (same family as C01) with a reference verdict.
func workC10Graphs(w *run.W) {
	var p c10Params
	json.Unmarshal(w.Params, &p)
	k := p.Macros
	targets := k + 1
	sub := 1 << targets
	total := 1
	for i := 0; i < k+1; i++ {
		total *= sub
	}
	name := func(i int) string {
		if i == k {
			return "@undef"
		}
		return fmt.Sprintf("@m%d", i)
	}
	for c := 0; c < total; c++ {
		if !w.Mine(int64(c)) || !w.Begin(fmt.Sprintf("graph/%d/%d", k, c)) {
			continue
		}
		adj := make([][]int, k+1) // adj[k] = root
		var b strings.Builder
		b.WriteString("JSIGHT 0.3\n")
		x := c
		for m := 0; m < k; m++ {
			s := x % sub
			x /= sub
			fmt.Fprintf(&b, "MACRO %s\n(\n  TYPE @t%d any\n", name(m), m)
			for t := 0; t < targets; t++ {
				if s&(1<<t) != 0 {
					fmt.Fprintf(&b, "  PASTE %s\n", name(t))
					adj[m] = append(adj[m], t)
				}
			}
			b.WriteString(")\n")
		}
		s := x % sub
		for t := 0; t < targets; t++ {
			if s&(1<<t) != 0 {
				fmt.Fprintf(&b, "PASTE %s\n", name(t))
				adj[k] = append(adj[k], t)
			}
		}
		in := b.String()
		// reference
		anyCycle := false
		color := make([]int, k)
		var dfsC func(m int) bool
		dfsC = func(m int) bool {
			color[m] = 1
			for _, t := range adj[m] {
				if t == k {
					continue
				}
				if color[t] == 1 || (color[t] == 0 && dfsC(t)) {
					return true
				}
			}
			color[m] = 2
			return false
		}
		for m := 0; m < k; m++ {
			if color[m] == 0 && dfsC(m) {
				anyCycle = true
			}
		}
		// reachable from root: cycle / undefined / expansion order
		reachCycle, reachUndef := false, false
		var order []int
		onStack := make([]bool, k)
		var expand func(m int)
		expand = func(m int) {
			if reachCycle {
				return
			}
			onStack[m] = true
			order = append(order, m)
			for _, t := range adj[m] {
				if t == k {
					reachUndef = true
					continue
				}
				if onStack[t] {
					reachCycle = true
					return
				}
				expand(t)
			}
			onStack[m] = false
		}
		for _, t := range adj[k] {
			if t == k {
				reachUndef = true
				continue
			}
			expand(t)
		}
		bld := impl.BuildMem("root.jst", in)
		w.Count("graphs", 1)
		w.Nontrivial(in)
		detail := map[string]any{"input": in}
		switch {
		case bld.Panic != nil:
			w.Violation("C10", bld.Panic.Key(), "macro graph panics: "+bld.Panic.Value+"\n"+in, detail)
		case reachCycle:
			w.Count("ref_reachable_cycle", 1)
			if bld.Err == nil || !strings.Contains(bld.Err.Msg, "recursion") {
				w.Violation("C10", "reachable-cycle-not-rejected", fmt.Sprintf("a macro reaches itself through PASTEs; expected the recursion error, got %v\n%s", errMsg(bld.Err), in), detail)
			}
		case anyCycle:
			w.Count("ref_unreachable_cycle", 1) // never expanded: either verdict is fine
		case reachUndef:
			w.Count("ref_reachable_undefined", 1)
			if bld.Err == nil || !strings.Contains(bld.Err.Msg, "macro not found") {
				// a duplicate expansion may be reported first
				dup := len(order) != len(uniq(order))
				if !(dup && bld.Err != nil && strings.Contains(bld.Err.Msg, "has already been declared")) {
					w.Violation("C10", "undefined-macro-not-rejected", fmt.Sprintf("an undefined macro is pasted; expected 'macro not found', got %v\n%s", errMsg(bld.Err), in), detail)
				}
			}
		default:
			dup := len(order) != len(uniq(order))
			if dup {
				w.Count("ref_duplicate_expansion", 1)
				if bld.Err == nil || !strings.Contains(bld.Err.Msg, "has already been declared") {
					w.Violation("C10", "double-expansion", fmt.Sprintf("a macro declaring a TYPE is expanded twice; expected a duplicate-name error, got %v\n%s", errMsg(bld.Err), in), detail)
				}
				break
			}
			w.Count("ref_accept", 1)
			if bld.Err != nil {
				w.Violation("C10", "acyclic-graph-rejected", fmt.Sprintf("acyclic, fully defined macro graph rejected: %s\n%s", bld.Err.Msg, in), detail)
				break
			}
			// the catalog must contain exactly the types of the expanded macros, in expansion order
			j := impl.ToJson(&bld.J)
			doc, _ := oj.ParseOrdered([]byte(j.Out))
			var got []string
			if ut, ok := oj.Get(doc, "userTypes").(*oj.O); ok {
				got = ut.Keys
			}
			var want []string
			for _, m := range order {
				want = append(want, fmt.Sprintf("@t%d", m))
			}
			if strings.Join(got, ",") != strings.Join(want, ",") {
				w.Violation("C10", "expansion-content", fmt.Sprintf("expanded macros should declare %v, catalog has %v\n%s", want, got, in), detail)
			}
		}
		if c == 1234 {
			w.Sample(map[string]any{"macro_graph": in})
		}
		w.End()
	}
}

func errMsg(e *impl.ErrObs) string {
	if e == nil {
		return "acceptance"
	}
	return fmt.Sprintf("%q", e.Msg)
}

func uniq(a []int) []int {
	m := map[int]bool{}
	var o []int
	for _, x := range a {
		if !m[x] {
			m[x] = true
			o = append(o, x)
		}
	}
	return o
}

func runC10(c *chk.Ctx) {
	p := c10Params{AllRuns: !c.Quick(), MaxRun: 4, MaxBytes: chk.Pick(c, 20000, 60000), Macros: 3}
	r := c.Pool.Run("c10abs", p)
	c.Merge(r, "abstractions")
	r2 := c.Pool.Run("c10graphs", p)
	c.Merge(r2, "graphs")
	r3 := c.Pool.Run("c10models", map[string]any{"budget": chk.Pick(c, 3, 3)})
	c.Merge(r3, "abstractions")
	r4 := c.Pool.Run("c10shared", map[string]any{})
	c.Merge(r4, "abstractions")
	c.Cov["params"] = p
	c.Cov["rule"] = "(a) every accepted INCLUDE-free LF corpus document x every eligible contiguous run of sibling directives (PASTE admitted at the site, MACRO admits the kinds, the reference automaton keeps the run inside the MACRO subtree) moved into MACRO+PASTE: one macro defined after / before use, a macro nested in a macro, two macros; oracle: identical ToJson bytes and identical expanded directive tree. (b) every PASTE graph over 3 macros + an undefined name (65,536 graphs): reachable cycle => recursion error, reachable undefined => macro-not-found, acyclic and defined => accepted with exactly the expanded macros' declarations in expansion order. (d) hand-written documents in which one macro is pasted from two or three places (also a macro pasted twice inside a macro that is pasted twice) against the body written out at each place. (c) every generated model within the budget: the in-place rendering against every one- and two-macro abstraction of its sibling runs (identical ToJson bytes); C02 additionally compares them with the model."
}
