package checks

import (
	"encoding/json"
	"fmt"
	"os"

	"verif/internal/chk"
	"verif/internal/dt"
	"verif/internal/impl"
	"verif/internal/model"
	"verif/internal/run"
)

// C02 — model round trip: every model within the node budget x every layout within the deviation bound.

func init() {
	chk.Register(&chk.Check{ID: "C02", Level: "exploration", Run: runC02})
	chk.RegisterWorker("c02", workC02)
}

type c02Phase struct {
	Budget    int      `json:"budget"`     // documents with at most this many nodes ...
	MinBudget int      `json:"min_budget"` // ... and more than this many (already covered by an earlier phase)
	Deviation int      `json:"deviation"`
	Globals   []Global `json:"globals"`
	Moves     bool     `json:"moves"`
}

type c02Params struct {
	Phases []c02Phase `json:"phases"`
}

func runC02(c *chk.Ctx) {
	var p c02Params
	if c.Quick() {
		p.Phases = []c02Phase{
			{Budget: 3, Deviation: 1, Globals: someGlobals()[:3], Moves: true},
			{Budget: 1, Deviation: 2, Globals: []Global{canonGlobal}, Moves: true},
		}
	} else {
		p.Phases = []c02Phase{
			{Budget: 3, Deviation: 1, Globals: allGlobals(), Moves: true},
			{Budget: 2, Deviation: 2, Globals: someGlobals(), Moves: true},
			{Budget: 4, MinBudget: 3, Deviation: 1, Globals: []Global{canonGlobal}, Moves: true},
		}
	}
	r := c.Pool.Run("c02", p)
	c.Merge(r, "renderings")
	c.Cov["phases"] = p.Phases
	c.Cov["rule"] = "every document model within the node budget (palettes in internal/model/gen.go) x listed global layouts x every layout within the deviation bound (per-site alternatives incl. URL grouping, child Body, explicit context, quoting, annotation style, comments, blank lines, MACRO+PASTE and INCLUDE moves of every sibling run); renderings whose tree the reference context automaton does not confirm are skipped; non-trivial = accepted and compared with the model's expected JDoc document; distinct by rendered text"
	c.Assumptions = append(c.Assumptions,
		"expected JDoc document is computed from the model (internal/model), never from the implementation; 'example' strings are not compared",
		"schema features outside the palette are not generated")
}

func workC02(w *run.W) {
	var p c02Params
	json.Unmarshal(w.Params, &p)
	dir := workerDir(w)
	defer os.RemoveAll(dir)
	pal := model.DefaultPalette()
	for pi, ph := range p.Phases {
		c02Phase1(w, pal, pi, ph, dir)
	}
}

func c02Phase1(w *run.W, pal *model.Palette, pi int, p c02Phase, dir string) {
	idx := int64(-1)
	model.EnumDocs(pal, p.Budget, 0, func(d *model.Doc) {
		idx++
		if !w.Mine(idx) {
			return
		}
		if p.MinBudget > 0 && d.Size() <= p.MinBudget {
			return
		}
		if !w.Begin(fmt.Sprintf("phase%d/doc%d", pi, idx)) {
			return
		}
		defer w.End()
		w.Count("documents", 1)
		for _, g := range p.Globals {
			bound := p.Deviation
			dt.EnumLayouts(func(l *dt.Layout) *dt.File { return buildTree(d, l, p.Moves) }, g.Layout(), bound,
				func(f *dt.File, r *dt.Rendered, l *dt.Layout) bool {
					w.Count("renderings", 1)
					if !dt.Legal(f.Nodes, explicitOf(r)) {
						w.Count("skipped_illegal", 1)
						return true
					}
					c02Case(w, d, r, l, g, dir)
					return true
				})
		}
	})
}

func c02Case(w *run.W, d *model.Doc, r *dt.Rendered, l *dt.Layout, g Global, dir string) {
	pr := project(r)
	b := pr.Build(dir)
	detail := func() any { return map[string]any{"project": pr, "global": g.String(), "choices": l.Taken} }
	if b.Panic != nil {
		w.Violation("C02", b.Panic.Key(), "panic while building a rendered model: "+b.Panic.Value, detail())
		return
	}
	if b.Err != nil {
		w.Count("rejected", 1)
		w.Violation("C02", "rejected:"+errClass(b.Err.Msg), fmt.Sprintf("rendered model rejected: %s (%s:%d)\n%s", b.Err.Msg, b.Err.File, b.Err.Line, showProject(pr)), detail())
		return
	}
	out := impl.ToJson(&b.J)
	if out.Panic != nil || out.Err != "" {
		w.Violation("C02", "tojson-fails", "ToJson fails on an accepted rendered model: "+out.String(), detail())
		return
	}
	w.Count("accepted", 1)
	w.Nontrivial(showProject(pr))
	if diff := jdocDiff(d, out.Out); diff != "" {
		w.Violation("C02", "jdoc:"+diffClass(diff), fmt.Sprintf("catalog differs from the model at %s\n%s", diff, showProject(pr)), detail())
		return
	}
	if w.Shard == 0 {
		w.Sample(map[string]any{"files": pr.Files, "global": g.String(), "layout_choices": l.Taken})
	}
}
