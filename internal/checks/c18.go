package checks

import (
	"encoding/json"
	"fmt"
	"os"
	"os/exec"
	"path/filepath"
	"sort"
	"strings"
	"sync"

	"verif/internal/chk"
	"verif/internal/impl"
	"verif/internal/overlay"
	"verif/internal/run"
	"verif/shim/vsync"
)

// C18 — stateless exploration of thread interleavings of the real code under a cooperative scheduler (vsync overlay),
// plus a separate free-running pass of the same scenario bodies under the Go race detector.

func init() {
	chk.Register(&chk.Check{ID: "C18", Level: "model_checking", Run: runC18})
	chk.RegisterWorker("c18", workC18)
	chk.RegisterWorker("c18first", workC18First)
	chk.RegisterWorker("c18race", workC18Race)
}

var c18Docs = map[string]string{
	"A": "JSIGHT 0.3\nTYPE @t\n  {\"a\": 1, \"b\": {\"c\": [1,2]}}\nGET /a/{id}\n  200 @t\n  404\n    {\"e\": \"x\", \"f\": {\"g\": 2}}\n",
	"B": "JSIGHT 0.3\nTYPE @u\n  {\"zzzz\": \"qqqq\", \"k\": {\"m\": [7,8,9]}}\nPOST /b\n  Request\n    {\"r\": @u}\n  201 @u\n",
	"D": "JSIGHT 0.3\nTAG @t\nGET /o\n  Tags @t\n  404 any\n  200 any\n  403 any\n  200 empty\nPOST /o\n  500 any\n  201 any\n",
	"C": "JSIGHT 0.3\nTYPE @r regex\n  /[a-f]{4}\\d\\d/\nTYPE @base\n  {\"p\": 1}\nTYPE @d\n  { // {allOf: \"@base\"}\n    \"q\": @r\n  }\nGET /c\n  200 @d\n  201 [@d]\n",
}

type c18Scenario struct {
	Name    string
	Threads []string // each: "<doc>:<ops>" — ops over b(build) J I O P; docs prefixed '=' share the catalog built before
	Shared  string   // "" or doc key of the catalog built before the threads start
}

var c18Scenarios = []c18Scenario{
	{Name: "S1-build-and-serialise-A||B", Threads: []string{"A:bJO", "B:bJO"}},
	{Name: "S1-build-and-serialise-C||A", Threads: []string{"C:bJ", "A:bO"}},
	{Name: "S2-one-catalog-J||J", Shared: "A", Threads: []string{"=:J", "=:J"}},
	{Name: "S2-one-catalog-J||O", Shared: "A", Threads: []string{"=:J", "=:O"}},
	{Name: "S2-one-catalog-allOf-regex-J||I", Shared: "C", Threads: []string{"=:J", "=:I"}},
	{Name: "S2-one-catalog-allOf-regex-O||J", Shared: "C", Threads: []string{"=:O", "=:J"}},
	{Name: "S2-one-catalog-unordered-responses-J||O", Shared: "D", Threads: []string{"=:JI", "=:OP"}},
	{Name: "S3-one-catalog-J||J||O", Shared: "C", Threads: []string{"=:J", "=:J", "=:O"}},
}

var c18OnlyOnce bool

type c18Exec struct {
	points   []vsync.Point
	results  []string
	deadlock bool
	livelock bool
	spawned  int      // threads started by the library itself
	unshared []string // objects touched by two threads although outside the Shared set
	shared   map[uintptr]bool
}

func c18ThreadBody(spec string, sharedCat *impl.Built, out *string) func() {
	doc, ops, _ := strings.Cut(spec, ":")
	return func() {
		defer func() {
			if r := recover(); r != nil {
				*out += fmt.Sprintf("|PANIC %v", r)
			}
		}()
		b := sharedCat
		for i := 0; i < len(ops); i++ {
			switch ops[i] {
			case 'b':
				b = impl.BuildMem("root.jst", c18Docs[doc])
				if b.Err != nil || b.Panic != nil {
					*out += "|BUILD-FAILED " + b.Err.Tuple()
					return
				}
			default:
				*out += "|" + string(ops[i]) + "=" + impl.Access(&b.J, ops[i]).String()
			}
		}
	}
}

// c18Dependency: pools first used by a function of this module belong to the dependency (known finding).
const c18Dependency = "github.com/jsightapi/jsight-schema-core"

func c18Run(sc c18Scenario, prefix []int, shared map[uintptr]bool, fresh bool, record bool) (x c18Exec) {
	vsync.ResetPools()
	var cat *impl.Built
	if sc.Shared != "" {
		vsync.Seq(func() { cat = impl.BuildMem("root.jst", c18Docs[sc.Shared]) })
	}
	x.results = make([]string, len(sc.Threads))
	s := &vsync.Sched{Prefix: prefix, Shared: shared, FreshPools: fresh, Touched: map[uintptr]uint32{}, OnlyOnce: c18OnlyOnce}
	if fresh {
		// only the dependency's pools hand out fresh objects: a divergence that disappears is the dependency's defect
		s.FreshOwner = c18Dependency
	}
	var fns []func()
	for i, t := range sc.Threads {
		fns = append(fns, c18ThreadBody(t, cat, &x.results[i]))
	}
	s.Run(fns...)
	x.points = s.Points
	x.deadlock, x.livelock = s.Deadlock && !s.SelectLimit, s.Livelock
	x.spawned = s.SpawnedThreads()
	x.shared = s.SharedObjects()
	if shared != nil {
		for o := range x.shared {
			if !shared[o] {
				x.unshared = append(x.unshared, fmt.Sprintf("%#x(%s)", o, s.TouchedOp[o]))
			}
		}
	}
	return x
}

// c18Sequential: every thread's expected result = the same calls executed alone.
func c18Sequential(sc c18Scenario) []string {
	out := make([]string, len(sc.Threads))
	for i, t := range sc.Threads {
		vsync.ResetPools()
		var cat *impl.Built
		vsync.Seq(func() {
			if sc.Shared != "" {
				cat = impl.BuildMem("root.jst", c18Docs[sc.Shared])
			}
			c18ThreadBody(t, cat, &out[i])()
		})
	}
	return out
}

type c18Params struct {
	Bound   int `json:"bound"`
	Bound3  int `json:"bound_three_threads"`
	MaxExec int `json:"max_exec_per_scenario"`
}

func workC18(w *run.W) {
	var p c18Params
	json.Unmarshal(w.Params, &p)
	for si, sc := range c18Scenarios {
		if w.Only != "" && !strings.HasPrefix(w.Only, sc.Name) {
			continue
		}
		want := c18Sequential(sc)
		// discovery: which objects are shared (only usable when the shared objects are package-level, i.e. S1)
		var shared map[uintptr]bool
		if sc.Shared == "" {
			d := c18Run(sc, nil, nil, false, true)
			shared = d.shared
			if d.spawned > 0 {
				// the library starts goroutines of its own: their private objects are shared with their parent and
				// differ between executions, so the reduction does not apply
				shared = nil
			}
			if w.Shard == 0 {
				w.Count(sc.Name+"/all_points", int64(len(d.points)))
				w.Count(sc.Name+"/shared_objects", int64(len(shared)))
			}
		}
		bound := p.Bound
		if len(sc.Threads) >= 3 {
			bound = p.Bound3
		}
		root := c18Run(sc, nil, shared, false, true)
		execs := 0
		outcomes := map[string]bool{}
		var topIdx int64
		capped := false
		check := func(x c18Exec, prefix []int) {
			execs++
			w.Count("executions", 1)
			w.Count("scheduling_points", int64(len(x.points)))
			outcomes[strings.Join(x.results, "\x00")] = true
			id := fmt.Sprintf("%s/%v", sc.Name, prefix)
			detail := map[string]any{"scenario": sc.Name, "choices": prefix}
			if len(x.unshared) > 0 {
				w.Violation("C18", "machinery:reduction-assumption", fmt.Sprintf("%s: objects outside the shared set were touched by two threads (%v); the reduction is unsound for this tree", sc.Name, x.unshared), detail)
			}
			if x.deadlock {
				w.Violation("C18", "deadlock", fmt.Sprintf("%s: deadlock under schedule %v", id, describe(x)), detail)
				return
			}
			if x.livelock {
				w.Violation("C18", "livelock", fmt.Sprintf("%s: step limit reached under schedule %v", id, describe(x)), detail)
				return
			}
			for i := range want {
				if x.results[i] != want[i] {
					// replay twice, then attribute
					y := c18Run(sc, prefix, shared, false, false)
					if y.results[i] != x.results[i] {
						w.Violation("C18", "replay-not-reproducible", id+": diverging schedule did not reproduce", detail)
						return
					}
					key := "interference"
					func() {
						defer func() {
							if recover() != nil {
								key = "interference(fresh-pool-replay-diverged)"
							}
						}()
						z := c18Run(sc, prefix, shared, true, false)
						same := true
						for j := range want {
							if z.results[j] != want[j] {
								same = false
							}
						}
						if same {
							key = "dependency-buffer-pool-escape"
						}
					}()
					w.Violation("C18", key, fmt.Sprintf("%s: thread %d (%s) did not get its sequential result under schedule %v\n got:  %s\n want: %s", sc.Name, i, sc.Threads[i], describe(x), firstDiff(x.results[i], want[i]), firstDiff(want[i], x.results[i])), detail)
					return
				}
			}
		}
		// iterative bounding (CHESS): everything with 1 deviation first, then 2, ...; within pass b only executions
		// with exactly b deviations are new and checked
		var rec func(x c18Exec, prefix []int, cost, pass int)
		rec = func(x c18Exec, prefix []int, cost, pass int) {
			for i := len(prefix); i < len(x.points); i++ {
				pt := x.points[i]
				c := cost
				if pt.Kind == "pool" || pt.Kind == "select" || pt.Preempts {
					c++
				}
				if c > pass {
					continue
				}
				for alt := 1; alt < pt.Arity; alt++ {
					if p.MaxExec > 0 && execs >= p.MaxExec {
						capped = true
						return
					}
					np := make([]int, i+1)
					for k := 0; k < i; k++ {
						np[k] = x.points[k].Taken
					}
					np[i] = alt
					if len(prefix) == 0 {
						// top level: shard the subtrees
						topIdx++
						if !w.Mine(topIdx) {
							continue
						}
					}
					y := c18Run(sc, np, shared, false, false)
					w.Touch()
					if c == pass || (c < pass && pt.Arity > 0 && !pt.Preempts && pt.Kind != "pool" && false) {
						check(y, np)
					} else {
						execs++ // re-execution of a schedule already checked in an earlier pass
						w.Count("re_executions", 1)
					}
					rec(y, np, c, pass)
				}
			}
		}
		if w.Begin(fmt.Sprintf("%s", sc.Name)) {
			if w.Shard == 0 {
				check(root, nil)
				w.Count(sc.Name+"/points_first_execution", int64(len(root.points)))
			}
			for pass := 0; pass <= bound && !capped; pass++ {
				topIdx = 0
				rec(root, nil, 0, pass)
				if !capped {
					w.Count(fmt.Sprintf("%s/completed_bound_%d", sc.Name, pass), 1)
				}
			}
			w.Count("scenarios_x_shards", 1)
			w.Count(sc.Name+"/executions", int64(execs))
			w.Count("distinct_outcomes", int64(len(outcomes)))
			if capped {
				w.Count("capped", 1)
			}
			w.Nontrivial(sc.Name, fmt.Sprint(w.Shard))
			w.End()
		}
		_ = si
	}
	if w.Shard == 0 {
		w.Sample(map[string]any{"scenario": c18Scenarios[3].Name, "threads": c18Scenarios[3].Threads, "document": c18Docs["A"], "schedule_example": "thread 0 preempted after RWMutex.RLock #12, thread 1 runs to completion"})
		w.Emit("pools", map[string]any{"pools": vsync.PoolCount(), "owners": vsync.PoolOwners()})
	}
}

func describe(x c18Exec) []string {
	var out []string
	for i, p := range x.points {
		if p.Taken != 0 {
			out = append(out, fmt.Sprintf("#%d %s after %s -> alt %d/%d", i, p.Kind, p.Op, p.Taken, p.Arity))
		}
	}
	return out
}

// workC18First: S0 — one execution of "first use of the library by two threads" from a fresh process.
func workC18First(w *run.W) {
	var prefix []int
	json.Unmarshal(w.Params, &prefix)
	if !w.Begin(fmt.Sprintf("first-use/%v", prefix)) {
		return
	}
	sc := c18Scenario{Name: "S0-first-use", Threads: []string{"A:bJ", "B:bJ"}}
	c18OnlyOnce = true
	x := c18Run(sc, prefix, nil, false, true)
	c18OnlyOnce = false
	want := c18Sequential(sc)
	for i := range want {
		if x.results[i] != want[i] {
			x.results[i] = "DIFFERS-FROM-SEQUENTIAL: " + firstDiff(x.results[i], want[i])
		} else {
			x.results[i] = "ok"
		}
	}
	type pt struct {
		A int    `json:"a"`
		T int    `json:"t"`
		P bool   `json:"p"`
		K string `json:"k"`
	}
	var pts []pt
	for _, p := range x.points {
		pts = append(pts, pt{p.Arity, p.Taken, p.Preempts, p.Kind})
	}
	w.Emit("first", map[string]any{"points": pts, "results": x.results, "deadlock": x.deadlock})
	w.End()
}

// workC18Race: the same scenario bodies on real goroutines, free-running (build with -race, real sync).
func workC18Race(w *run.W) {
	if !w.Begin("race-pass") {
		return
	}
	var p c18RaceParams
	json.Unmarshal(w.Params, &p)
	docs := []string{"A", "B", "C"}
	for round := 0; round < p.Rounds; round++ {
		var wg sync.WaitGroup
		for g := 0; g < 16; g++ {
			wg.Add(1)
			go func(g int) {
				defer wg.Done()
				var out string
				c18ThreadBody(docs[(g+round)%3]+":bJOIP", nil, &out)()
			}(g)
		}
		wg.Wait()
		for _, d := range docs {
			cat := impl.BuildMem("root.jst", c18Docs[d])
			for g := 0; g < 8; g++ {
				wg.Add(1)
				go func(g int) {
					defer wg.Done()
					var out string
					c18ThreadBody("=:"+string("JOIP"[g%4])+string("JOIP"[(g+1)%4]), cat, &out)()
				}(g)
			}
			wg.Wait()
		}
		w.Touch()
	}
	w.Count("race_rounds", int64(p.Rounds))
	// wide pass: every project of the list is built and serialised by four goroutines at the same time (each walks the
	// list from another offset, so every pair of code paths meets without a happens-before edge), then one catalog of
	// every project is serialised by three goroutines.
	projs := c18RaceProjects(p.CorpusStride)
	var wg sync.WaitGroup
	const G = 4
	for g := 0; g < G; g++ {
		wg.Add(1)
		go func(g int) {
			defer wg.Done()
			for k := range projs {
				pr := projs[(k+g*len(projs)/G)%len(projs)]
				b := pr()
				if b.OK() {
					for _, op := range []byte("JOIP") {
						impl.Access(&b.J, op)
					}
				}
				if g == 0 {
					w.Touch()
				}
			}
		}(g)
	}
	wg.Wait()
	for _, pr := range projs {
		b := pr()
		if !b.OK() {
			continue
		}
		for _, ops := range []string{"JOIP", "OJPI", "IPJO"} {
			wg.Add(1)
			go func(ops string) {
				defer wg.Done()
				for i := 0; i < len(ops); i++ {
					impl.Access(&b.J, ops[i])
				}
			}(ops)
		}
		wg.Wait()
		w.Touch()
	}
	w.Count("race_wide_projects", int64(len(projs)))
	w.End()
}

type c18RaceParams struct {
	Rounds       int `json:"rounds"`
	CorpusStride int `json:"corpus_stride"`
}

// c18RaceProjects: the hand-written projects of C06/C16/C18, documents with every annotation / description / comment
// form, and every stride-th corpus file.
func c18RaceProjects(stride int) []func() *impl.Built {
	var out []func() *impl.Built
	add := func(txt string) {
		out = append(out, func() *impl.Built { return impl.BuildMem("root.jst", txt) })
	}
	for _, k := range []string{"A", "B", "C", "D"} {
		add(c18Docs[k])
	}
	for _, p := range c16Projects {
		add(p.Text)
	}
	for _, p := range c06Projects {
		add(p.Text)
	}
	for _, d := range c01InjectDocs {
		add(d)
	}
	add("JSIGHT 0.3\nINFO\n  Title \"a  b\"\n  Description\n    two   words\n\tand a tab\nSERVER @s /* multi\n   line\tannotation  here */\n  BaseUrl \"https://x\"\nTAG @t //  doubled  spaces\t\ttabs\n  Description\n    t\nGET /a/{id} /* x\n y */\n  Tags @t\n  Path\n  {\"id\": 1 // note   with   spaces\n  }\n  200 any //\ttab\n  404 empty /* a\n\n  b */\n")
	add("JSIGHT 0.3\nURL /r //  rpc  \n  Protocol json-rpc-2.0\n  Method m /* multi\n line */\n    Params\n    {\"a\": 1} // n  n\n    Result any\nTYPE @t /* t\tt */\n{\"k\": \"v\" /* inner\n   note */\n}\nENUM @e //  e  e\n[1, // one  one\n 2]\n")
	if stride > 0 {
		for i, f := range corpusFiles() {
			if i%stride == 0 {
				f := f
				out = append(out, func() *impl.Built { return impl.BuildDisk(f) })
			}
		}
	}
	return out
}

func runC18(c *chk.Ctx) {
	exe, nfiles, cinfo, err := overlay.BuildVsync()
	if err != nil {
		// the tree uses something of package sync / sync/atomic / channels the shim cannot stand in for: the schedules
		// are not explored on this tree (reported, not an alarm); the free-running race pass still runs
		fmt.Fprintln(os.Stderr, err)
		c.Incomplete = append(c.Incomplete, "the cooperative-scheduler variant could not be built for this tree: interleavings are not explored, only the free-running race pass ran")
		c18RacePass(c)
		c.Cov["rule"] = "free-running -race pass only (see incomplete_reasons)"
		return
	}
	c.Cov["vsync_overlay_files_rewritten"] = nfiles
	c.Cov["library_goroutine_and_channel_sites_rewritten"] = len(cinfo.Sites)
	if len(cinfo.Unsupported) > 0 {
		c.Cov["concurrency_constructs_not_controlled"] = cinfo.Unsupported
		c.Incomplete = append(c.Incomplete, fmt.Sprintf("%d concurrency construct(s) of the library are not controlled by the explorer", len(cinfo.Unsupported)))
	}
	p := c18Params{Bound: chk.Pick(c, 2, 3), Bound3: chk.Pick(c, 1, 2), MaxExec: chk.Pick(c, 6000, 30000)}
	pool := *c.Pool
	pool.Exe = exe
	r := pool.Run("c18", p)
	c.Merge(r, "executions")
	if e := r.Emitted["pools"]; len(e) > 0 {
		var m map[string]any
		json.Unmarshal(e[0], &m)
		c.Cov["sync_pools_seen"] = m
	}
	// S0: DFS across fresh processes
	c18FirstUse(c, &pool, chk.Pick(c, 1, 2))
	// free-running race pass
	c18RacePass(c)
	cnt := c.Counts()
	c.Cov["states"] = cnt["scheduling_points"]
	c.Cov["transitions"] = cnt["executions"]
	c.Cov["traces_validated_against_impl"] = cnt["executions"]
	c.Cov["distinct_outcomes_over_shards"] = cnt["distinct_outcomes"]
	c.Cov["params"] = p
	var names []string
	for _, s := range c18Scenarios {
		names = append(names, s.Name+" "+strings.Join(s.Threads, " || "))
	}
	c.Cov["scenarios"] = names
	if cnt["capped"] > 0 {
		c.Incomplete = append(c.Incomplete, fmt.Sprintf("execution cap %d per scenario and shard reached %d time(s)", p.MaxExec, cnt["capped"]))
	}
	c.Cov["rule"] = "package sync is replaced in jsight-api-core and jsight-schema-core by a cooperative-scheduler shim (build overlay from the current tree): every Mutex/RWMutex/Once/Pool/WaitGroup/Cond/Map operation, every sync/atomic operation (shim verif/shim/vatomic), every goroutine start, channel operation and select of the library itself (rewritten into the shim's runtime by the same overlay), and the instant after Pool.Put, is a scheduling point; sync.Pool answers (reuse LIFO / reuse older / fresh) are choice points too. For each scenario (two threads building different projects and serialising them; two or three threads serialising one catalog; first use of the library from a fresh process) all interleavings with at most `bound` preemptions/pool deviations are executed on the real code; every thread must obtain the result of the same calls run alone; no deadlock, no panic. For independent builds only operations on objects touched by two threads are scheduling points, and every execution asserts that no other object is shared. A diverging schedule is replayed, and replayed again with fresh pool objects to attribute it. The Go race detector runs the same bodies free-running in a separate -race build."
	c.Assumptions = append(c.Assumptions,
		"memory-model effects below scheduling-point granularity are not modelled; data races are decided by the separate free-running -race pass",
		"the standard library keeps the real sync package")
}

func c18FirstUse(c *chk.Ctx, pool *run.Pool, bound int) {
	maxExec := chk.Pick(c, 600, 6000)
	capped := false
	type pt struct {
		A int    `json:"a"`
		T int    `json:"t"`
		P bool   `json:"p"`
		K string `json:"k"`
	}
	type ex struct {
		Points   []pt     `json:"points"`
		Results  []string `json:"results"`
		Deadlock bool     `json:"deadlock"`
	}
	runOne := func(prefix []int) *ex {
		pj, _ := json.Marshal(prefix)
		r := pool.RunOnly("c18first", pj, "")
		if len(r.Emitted["first"]) == 0 {
			return nil
		}
		var e ex
		json.Unmarshal(r.Emitted["first"][0], &e)
		return &e
	}
	root := runOne(nil)
	if root == nil {
		c.Incomplete = append(c.Incomplete, "S0 first-use scenario could not be executed")
		return
	}
	// every thread must report "ok" (= its sequential result)
	want := []string{"ok", "ok"}
	if strings.Join(root.Results, "\x00") != strings.Join(want, "\x00") {
		c.Violation("first-use-interference", fmt.Sprintf("first use of the library by two threads (canonical schedule): %v", root.Results), "c18first", []int{}, "", nil)
	}
	type job struct {
		prefix []int
		cost   int
		parent *ex
	}
	n := 1
	var mu sync.Mutex
	var explore func(e *ex, prefix []int, cost int)
	sem := make(chan struct{}, 16)
	var wg sync.WaitGroup
	explore = func(e *ex, prefix []int, cost int) {
		for i := len(prefix); i < len(e.Points); i++ {
			cc := cost
			if e.Points[i].P || e.Points[i].K == "pool" || e.Points[i].K == "select" {
				cc++
			}
			if cc > bound {
				continue
			}
			for alt := 1; alt < e.Points[i].A; alt++ {
				np := make([]int, i+1)
				for k := 0; k < i; k++ {
					np[k] = e.Points[k].T
				}
				np[i] = alt
				mu.Lock()
				over := n >= maxExec
				if over {
					capped = true
				}
				mu.Unlock()
				if over {
					return
				}
				wg.Add(1)
				sem <- struct{}{}
				go func(np []int, cc int) {
					defer wg.Done()
					y := runOne(np)
					<-sem
					if y == nil {
						return
					}
					mu.Lock()
					n++
					bad := y.Deadlock || strings.Join(y.Results, "\x00") != strings.Join(want, "\x00")
					mu.Unlock()
					if bad {
						mu.Lock()
						c.Violation("first-use-interference", fmt.Sprintf("first use of the library by two threads: schedule %v gives deadlock=%v, results %v", np, y.Deadlock, y.Results), "c18first", np, "", nil)
						mu.Unlock()
						return
					}
					explore(y, np, cc)
				}(np, cc)
			}
		}
	}
	explore(root, nil, 0)
	wg.Wait()
	if capped {
		c.Incomplete = append(c.Incomplete, fmt.Sprintf("first-use scenario: execution cap %d reached", maxExec))
	}
	c.Count("first_use_executions(fresh processes)", int64(n))
	c.Count("executions", int64(n))
	c.Cov["first_use_points"] = len(root.Points)
}

// buildRace builds the -race variant (plain sources, real sync), cached per tree hash.
func buildRace() (string, error) {
	dir := os.Getenv("VCHECK_BUILD_DIR")
	if dir == "" {
		return "", fmt.Errorf("VCHECK_BUILD_DIR not set")
	}
	exe := filepath.Join(dir, "vcheck-race")
	if _, err := os.Stat(exe); err != nil {
		tmp := fmt.Sprintf("%s.%d", exe, os.Getpid())
		cmd := exec.Command("go", "build", "-race", "-tags", "verif", "-o", tmp, "./cmd/vcheck")
		cmd.Dir = "/verif"
		cmd.Env = append(os.Environ(), "GOFLAGS=-mod=mod", "GOPROXY=off", "GOSUMDB=off", "GOTOOLCHAIN=local")
		if out, err := cmd.CombinedOutput(); err != nil {
			return "", fmt.Errorf("%v: %s", err, trunc(string(out), 300))
		}
		os.Rename(tmp, exe)
	}
	return exe, nil
}

// Prebuild builds every worker variant for the current tree (called from bin/setup).
func Prebuild() {
	if _, _, err := overlay.Build("vos", overlay.RewriteImport("os", "os", "verif/shim/vos")); err != nil {
		fmt.Fprintln(os.Stderr, err)
	}
	if _, _, _, err := overlay.BuildVsync(); err != nil {
		fmt.Fprintln(os.Stderr, err)
	}
	if rw, _, err := overlay.MapRangeRewritesCached(); err == nil {
		if _, _, err := overlay.Build("vmap", func(path string, src []byte) ([]byte, bool) { b, ok := rw()[path]; return b, ok }); err != nil {
			fmt.Fprintln(os.Stderr, err)
		}
	}
	if _, err := buildRace(); err != nil {
		fmt.Fprintln(os.Stderr, err)
	}
}

func c18RacePass(c *chk.Ctx) {
	exe, err := buildRace()
	if err != nil {
		c.Incomplete = append(c.Incomplete, "race-detector build failed: "+err.Error())
		c.Assumptions = append(c.Assumptions, "the -race pass could not be built on this run: 'no data race' is not decided")
		return
	}
	tmp := filepath.Join(c.Pool.TmpDir, "race")
	os.MkdirAll(tmp, 0o755)
	rp := c18RaceParams{Rounds: chk.Pick(c, 10, 30), CorpusStride: chk.Pick(c, 4, 1)}
	rpj, _ := json.Marshal(rp)
	cmd := exec.Command(exe, "worker", "c18race", "0", "1", string(rpj), filepath.Join(tmp, "cur"), filepath.Join(tmp, "hs"), "", "")
	cmd.Env = append(os.Environ(), "GORACE=halt_on_error=0 exitcode=0", "VERIF_TMP="+tmp, "GOMAXPROCS=8")
	out, _ := cmd.CombinedOutput()
	reports := strings.Split(string(out), "WARNING: DATA RACE")
	c.Count("race_reports", int64(len(reports)-1))
	wide := 0
	for _, l := range strings.Split(string(out), "\n") {
		if strings.HasPrefix(l, "S ") && strings.Contains(l, "race_wide_projects") {
			var m struct {
				Counts map[string]int64 `json:"counts"`
			}
			if json.Unmarshal([]byte(l[2:]), &m) == nil {
				wide = int(m.Counts["race_wide_projects"])
			}
		}
	}
	c.Cov["race_pass"] = map[string]any{"goroutines": 16, "rounds": rp.Rounds, "reports": len(reports) - 1, "wide_pass_projects": wide, "wide_pass": "every project built and serialised by 4 goroutines walking the list from different offsets, then one catalog per project serialised by 3 goroutines", "corpus_stride": rp.CorpusStride}
	seen := map[string]bool{}
	for _, rep := range reports[1:] {
		// racing function pair: first jsightapi frame of each of the two stacks
		var fr []string
		for _, blk := range strings.Split(rep, "\n\n") {
			for _, l := range strings.Split(blk, "\n") {
				t := strings.TrimSpace(l)
				if strings.HasPrefix(t, "github.com/jsightapi/") {
					f := strings.TrimPrefix(t, "github.com/jsightapi/")
					if i := strings.Index(f, "("); i > 0 && !strings.Contains(f[:i], ".") {
						f = f[:i]
					}
					if i := strings.LastIndex(f, "("); i > 0 {
						f = f[:i]
					}
					fr = append(fr, f)
					break
				}
			}
			if len(fr) == 2 {
				break
			}
		}
		sort.Strings(fr)
		key := "data-race:" + strings.Join(fr, "<->")
		blocks := strings.Split(rep, "\n\n")
		for _, blk := range blocks[:min(2, len(blocks))] {
			if strings.Contains(blk, "bytes.(*Buffer)") && (strings.Contains(blk, "jschema.(*exampleBuilder)") || strings.Contains(blk, "openapi/internal/jsoac.")) {
				// an access to a pooled bytes.Buffer of jsight-schema-core whose contents escaped after Put
				key = "data-race:dependency-pooled-buffer"
			}
		}
		if seen[key] {
			continue
		}
		seen[key] = true
		c.Violation(key, "the Go race detector reports a data race between "+strings.Join(fr, " and ")+"\n"+trunc(rep, 1500), "c18race", map[string]any{}, "race-pass", nil)
	}
}
