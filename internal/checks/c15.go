package checks

import (
	"encoding/json"
	"fmt"
	"os"
	"strings"

	"verif/internal/chk"
	"verif/internal/dt"
	"verif/internal/impl"
	"verif/internal/model"
	"verif/internal/oj"
	"verif/internal/run"
)

// C15 — permutations of independent top-level blocks.

func init() {
	chk.Register(&chk.Check{ID: "C15", Level: "exploration", Run: runC15})
	chk.RegisterWorker("c15", workC15)
}

type c15Params struct {
	FullPermUpTo int `json:"full_perm_up_to"`
	MaxBytes     int `json:"max_bytes"`
	ModelBudget  int `json:"model_budget"`
}

type c15Block struct {
	text  string
	kind  string
	types []string
	enums []string
	servs []string
	tags  []string
	inter []string
}

func unq(s string) string {
	if len(s) >= 2 && s[0] == '"' && s[len(s)-1] == '"' {
		s = s[1 : len(s)-1]
		s = strings.ReplaceAll(strings.ReplaceAll(s, `\"`, `"`), `\\`, `\`)
	}
	return s
}

// c15Blocks splits a document into JSIGHT head + independent top-level blocks; ok=false if it does not qualify.
func c15Blocks(text string) (head string, blocks []c15Block, ok bool) {
	ds, ok := analyse(text)
	if !ok || len(ds.dirs) == 0 || ds.kindOf(0) != "JSIGHT" {
		return "", nil, false
	}
	roots := ds.children(-1)
	_, he := ds.extent(0, 0)
	head = text[:he]
	param := func(di, k int) string {
		if k < len(ds.dirs[di].params) {
			p := ds.dirs[di].params[k]
			return unq(text[p.Begin : p.End+1])
		}
		return ""
	}
	for _, r := range roots[1:] {
		k := ds.kindOf(r)
		s, e := ds.extent(r, r)
		b := c15Block{text: text[s:e], kind: k}
		switch {
		case k == "TYPE":
			for i := range ds.dirs[r].params {
				if v := param(r, i); strings.HasPrefix(v, "@") {
					b.types = append(b.types, v)
					break
				}
			}
		case k == "ENUM":
			b.enums = append(b.enums, param(r, 0))
		case k == "SERVER":
			b.servs = append(b.servs, param(r, 0))
		case k == "TAG":
			b.tags = append(b.tags, param(r, 0))
		case k == "INFO":
		case k == "URL":
			path := param(r, 0)
			for _, c := range ds.children(r) {
				ck := ds.kindOf(c)
				if dt.IsMethod(ck) {
					b.inter = append(b.inter, "http "+ck+" "+path)
				}
				if ck == "Method" {
					b.inter = append(b.inter, "json-rpc-2.0 "+param(c, 0)+" "+path)
				}
			}
		case dt.IsMethod(k):
			b.inter = append(b.inter, "http "+k+" "+param(r, 0))
		default:
			return "", nil, false // MACRO, PASTE, ...: not an independent block
		}
		// no PASTE anywhere inside
		for _, kk := range ds.subtreeKinds(r, r) {
			if kk == "PASTE" || kk == "MACRO" {
				return "", nil, false
			}
		}
		blocks = append(blocks, b)
	}
	return head, blocks, len(blocks) >= 2
}

func permutations(n int, fullUpTo int) [][]int {
	var out [][]int
	id := seq(n)
	if n <= fullUpTo {
		var rec func(k int, p []int)
		rec = func(k int, p []int) {
			if k == n {
				out = append(out, append([]int{}, p...))
				return
			}
			for i := k; i < n; i++ {
				p[k], p[i] = p[i], p[k]
				rec(k+1, p)
				p[k], p[i] = p[i], p[k]
			}
		}
		rec(0, append([]int{}, id...))
		return out[1:] // without the identity (first generated)
	}
	for i := 0; i+1 < n; i++ {
		p := append([]int{}, id...)
		p[i], p[i+1] = p[i+1], p[i]
		out = append(out, p)
	}
	for r := 1; r < n; r++ {
		p := make([]int, n)
		for i := range p {
			p[i] = (i + r) % n
		}
		out = append(out, p)
	}
	rev := make([]int, n)
	for i := range rev {
		rev[i] = n - 1 - i
	}
	return append(out, rev)
}

func c15Check(w *run.W, name, head string, blocks []c15Block, fullUpTo int, cidx *int64) {
	var ob strings.Builder
	ob.WriteString(head)
	for _, b := range blocks {
		ob.WriteString(b.text)
	}
	text := ob.String()
	orig := impl.BuildMem("root.jst", text)
	if !orig.OK() {
		// the document as written is rejected: if some order of its blocks is accepted, that order is an accepted document
		// and every other order (this one included) must be accepted too — judge from there
		if orig.Err != nil && len(blocks) >= 2 && len(blocks) <= 5 && !strings.HasSuffix(name, "/rebased") {
			for _, perm := range permutations(len(blocks), 5) {
				var pb strings.Builder
				pb.WriteString(head)
				nb := make([]c15Block, 0, len(blocks))
				for _, i := range perm {
					pb.WriteString(blocks[i].text)
					nb = append(nb, blocks[i])
				}
				if b := impl.BuildMem("root.jst", pb.String()); b.OK() {
					c15Check(w, name+"/rebased", head, nb, fullUpTo, cidx)
					return
				}
			}
		}
		return
	}
	j := impl.ToJson(&orig.J)
	if j.Err != "" || j.Panic != nil {
		return
	}
	od, err := oj.ParseOrdered([]byte(j.Out))
	if err != nil {
		return
	}
	// sanity: the block -> key attribution must explain the original catalog, otherwise the document is not judged
	section := func(doc any, k string) *oj.O {
		o, _ := oj.Get(doc, k).(*oj.O)
		if o == nil {
			o = oj.NewO(true)
		}
		return o
	}
	expectKeys := func(order []int, pick func(b c15Block) []string) []string {
		var out []string
		for _, i := range order {
			out = append(out, pick(blocks[i])...)
		}
		return out
	}
	id := seq(len(blocks))
	picks := map[string]func(b c15Block) []string{
		"userTypes": func(b c15Block) []string { return b.types }, "userEnums": func(b c15Block) []string { return b.enums },
		"servers": func(b c15Block) []string { return b.servs }, "interactions": func(b c15Block) []string { return b.inter },
	}
	for sec, pick := range picks {
		if strings.Join(expectKeys(id, pick), "\x00") != strings.Join(section(od, sec).Keys, "\x00") {
			if w.Shard == 0 {
				w.Count("documents_not_attributable", 1)
			}
			return
		}
	}
	if w.Shard == 0 {
		w.Count("documents", 1)
	}
	regexUsers := c15RegexUsers(od)
	declared := map[string]bool{}
	for _, b := range blocks {
		for _, t := range b.tags {
			declared[t] = true
		}
	}
	for _, perm := range permutations(len(blocks), fullUpTo) {
		*cidx++
		if !w.Mine(*cidx) || !w.Begin(fmt.Sprintf("%s/perm%v", name, perm)) {
			continue
		}
		var pb strings.Builder
		pb.WriteString(head)
		for _, i := range perm {
			pb.WriteString(blocks[i].text)
		}
		pt := pb.String()
		w.Count("permutations", 1)
		w.Nontrivial(pt)
		detail := map[string]any{"document": name, "permutation": perm, "permuted": trunc(pt, 4000)}
		b := impl.BuildMem("root.jst", pt)
		func() {
			defer w.End()
			if b.Panic != nil {
				w.Violation("C15", b.Panic.Key(), "permuted document panics: "+b.Panic.Value+"\n"+trunc(pt, 1500), detail)
				return
			}
			if b.Err != nil {
				w.Violation("C15", "permuted-rejected:"+errClass(b.Err.Msg), fmt.Sprintf("%s is accepted; with its top-level blocks in order %v it is rejected: %s (line %d)\n%s", name, perm, b.Err.Msg, b.Err.Line, trunc(pt, 1800)), detail)
				return
			}
			pj := impl.ToJson(&b.J)
			pd, err := oj.ParseOrdered([]byte(pj.Out))
			if err != nil {
				w.Violation("C15", "tojson", "ToJson fails on the permuted document: "+pj.String(), detail)
				return
			}
			for sec, pick := range picks {
				want := expectKeys(perm, pick)
				got := section(pd, sec).Keys
				if strings.Join(want, "\x00") != strings.Join(got, "\x00") {
					w.Violation("C15", "section-order:"+sec, fmt.Sprintf("%s, blocks in order %v: %s keys are %v, text order is %v\n%s", name, perm, sec, got, want, trunc(pt, 1500)), detail)
					return
				}
				for _, k := range want {
					if d := oj.Diff(section(od, sec).Vals[k], section(pd, sec).Vals[k], "/"+sec+"/"+k); d != "" {
						key := "entry-changed:" + sec
						if regexUsers >= 2 && oj.Diff(maskExamples(section(od, sec).Vals[k]), maskExamples(section(pd, sec).Vals[k]), "") == "" {
							// only "example" strings differ, in a document whose regex user type is embedded by two or more
							// schemas: the stateful example generator of the dependency (one per regex type) hands its next
							// string to whichever schema asks first
							key = "entry-changed:example-of-shared-regex-type"
						}
						w.Violation("C15", key, fmt.Sprintf("%s, blocks in order %v: entry changed: %s\n%s", name, perm, d, trunc(pt, 1500)), detail)
						return
					}
				}
			}
			if d := oj.Diff(oj.Get(od, "info"), oj.Get(pd, "info"), "/info"); d != "" {
				w.Violation("C15", "entry-changed:info", fmt.Sprintf("%s, blocks in order %v: %s", name, perm, d), detail)
				return
			}
			// tags: declared in new TAG order, derived in order of first use; interactions inside a tag in text order
			var wantTags []string
			for _, t := range expectKeys(perm, func(b c15Block) []string { return b.tags }) {
				wantTags = append(wantTags, t)
			}
			newInter := expectKeys(perm, picks["interactions"])
			seen := map[string]bool{}
			for _, t := range wantTags {
				seen[t] = true
			}
			tagsOf := func(doc any, id string) []string {
				var out []string
				arr, _ := oj.Get(doc, "interactions", id, "tags").([]any)
				for _, x := range arr {
					s, _ := x.(string)
					out = append(out, s)
				}
				return out
			}
			for _, id := range newInter {
				for _, t := range tagsOf(od, id) {
					if !seen[t] {
						seen[t] = true
						wantTags = append(wantTags, t)
					}
				}
			}
			gotTags := section(pd, "tags").Keys
			if strings.Join(wantTags, "\x00") != strings.Join(gotTags, "\x00") {
				w.Violation("C15", "section-order:tags", fmt.Sprintf("%s, blocks in order %v: tags are %v, expected %v\n%s", name, perm, gotTags, wantTags, trunc(pt, 1500)), detail)
				return
			}
			for _, t := range wantTags {
				ot, _ := section(od, "tags").Vals[t].(*oj.O)
				nt, _ := section(pd, "tags").Vals[t].(*oj.O)
				for _, k := range []string{"name", "title", "description"} {
					if d := oj.Diff(ot.Vals[k], nt.Vals[k], "/tags/"+t+"/"+k); d != "" {
						w.Violation("C15", "entry-changed:tags", d, detail)
						return
					}
				}
				var want []string
				for _, proto := range []string{"http", "json-rpc-2.0"} {
					for _, id := range newInter {
						if strings.HasPrefix(id, proto+" ") {
							for _, tt := range tagsOf(od, id) {
								if tt == t {
									want = append(want, id)
								}
							}
						}
					}
				}
				var got []string
				gg, _ := nt.Vals["interactionGroups"].([]any)
				for _, g := range gg {
					ii, _ := oj.Get(g, "interactions").([]any)
					for _, x := range ii {
						s, _ := x.(string)
						got = append(got, s)
					}
				}
				if strings.Join(want, "\x00") != strings.Join(got, "\x00") {
					w.Violation("C15", "tag-interaction-order", fmt.Sprintf("%s, blocks in order %v: tag %s lists %v, text order is %v", name, perm, t, got, want), detail)
					return
				}
			}
		}()
	}
}

// c15RegexUsers: the largest number of schemas (user types and interaction schemas) that use one regex user type.
func c15RegexUsers(doc any) int {
	regexTypes := map[string]bool{}
	if ut, _ := oj.Get(doc, "userTypes").(*oj.O); ut != nil {
		for _, k := range ut.Keys {
			if n, _ := oj.Get(ut.Vals[k], "schema", "notation").(string); n == "regex" {
				regexTypes[k] = true
			}
		}
	}
	users := map[string]int{}
	var walk func(x any)
	walk = func(x any) {
		switch v := x.(type) {
		case *oj.O:
			if arr, ok := v.Vals["usedUserTypes"].([]any); ok {
				for _, t := range arr {
					if s, _ := t.(string); regexTypes[s] {
						users[s]++
					}
				}
			}
			for _, k := range v.Keys {
				walk(v.Vals[k])
			}
		case []any:
			for _, e := range v {
				walk(e)
			}
		}
	}
	walk(doc)
	m := 0
	for _, n := range users {
		if n > m {
			m = n
		}
	}
	return m
}

// maskExamples returns a copy of x in which every "example" string is blanked.
func maskExamples(x any) any {
	switch v := x.(type) {
	case *oj.O:
		o := oj.NewO(v.Ordered)
		for _, k := range v.Keys {
			if k == "example" {
				o.Set(k, "")
			} else {
				o.Set(k, maskExamples(v.Vals[k]))
			}
		}
		return o
	case []any:
		out := make([]any, len(v))
		for i, e := range v {
			out[i] = maskExamples(e)
		}
		return out
	}
	return x
}

func workC15(w *run.W) {
	var p c15Params
	json.Unmarshal(w.Params, &p)
	var cidx int64
	for _, f := range corpusFiles() {
		raw, _ := os.ReadFile(f)
		text := string(raw)
		if strings.Contains(text, "\r") || hasInclude(text) || len(text) > p.MaxBytes || strings.Contains(text, "\x00") {
			continue
		}
		if !strings.HasSuffix(text, "\n") {
			text += "\n"
		}
		head, blocks, ok := c15Blocks(text)
		if !ok {
			continue
		}
		c15Check(w, f, head, blocks, p.FullPermUpTo, &cidx)
	}
	// generated models (type-dependency shapes come from the palette: @T3 uses @T1, @T5 uses @E1, responses use @T1)
	pal := model.DefaultPalette()
	di := 0
	model.EnumDocs(pal, p.ModelBudget, 0, func(d *model.Doc) {
		di++
		if len(d.Blocks) < 2 {
			return
		}
		l := canonGlobal.Layout()
		l.Only = map[string]bool{}
		l.Reset()
		r := dt.Render(d.ToTree(&l), &l)
		head, blocks, ok := c15Blocks(r.Files[r.Root])
		if !ok {
			return
		}
		c15Check(w, fmt.Sprintf("model%d", di), head, blocks, p.FullPermUpTo, &cidx)
	})
	// hand-written dependency shapes
	for i, t := range c15Shapes {
		head, blocks, ok := c15Blocks(t)
		if ok {
			c15Check(w, fmt.Sprintf("shape%d", i), head, blocks, 5, &cidx)
		}
	}
	if w.Shard == 0 {
		w.Sample(map[string]any{"shape_document": c15Shapes[0], "permutation_example": []int{2, 0, 1, 3}})
	}
}

var c15Shapes = []string{
	// chain, used before declaration
	"JSIGHT 0.3\nTYPE @a\n  {\"b\": @b}\nTYPE @b\n  {\"c\": @c}\nTYPE @c\n  {\"x\": 1}\nGET /x\n  200 @a\nENUM @e\n  [1, 2]\n",
	// diamond
	"JSIGHT 0.3\nTYPE @top\n  {\"l\": @l, \"r\": @r}\nTYPE @l\n  {\"z\": @z}\nTYPE @r\n  {\"z\": @z}\nTYPE @z\n  1\nPOST /d\n  Request @top\n  200 [@z]\n",
	// mutual recursion through optional properties
	"JSIGHT 0.3\nTYPE @p\n  {\n    \"q\": @q // {optional: true}\n  }\nTYPE @q\n  {\n    \"p\": @p // {optional: true}\n  }\nGET /p\n  200 @p\nGET /q\n  200 @q\n",
	// allOf, enum used by a type, tags
	"JSIGHT 0.3\nENUM @colors\n  [\"r\", \"g\"]\nTYPE @base\n  {\"c\": \"r\" // {enum: @colors}\n  }\nTYPE @derived\n  { // {allOf: \"@base\"}\n    \"d\": 1\n  }\nTAG @t1\nTAG @t2 // Two\nURL /u\n  GET\n    Tags @t2 @t1\n    200 @derived\n  POST\n    200 @base\nGET /v/{id}\n  Path\n  {\"id\": @idt}\n  200 any\nTYPE @idt\n  5\nSERVER @s1\n  BaseUrl \"http://a\"\nSERVER @s2\n  BaseUrl \"http://b\"\nINFO\n  Title \"T\"\n",
	// a type whose dependency uses an enum; enum, dependency and user in every order
	"JSIGHT 0.3\nENUM @colors\n  [\"r\", \"g\"]\nTYPE @b\n  {\n    \"c\": \"r\" // {enum: @colors}\n  }\nTYPE @a\n  {\"b\": @b}\nGET /ab\n  200 @a\n",
	"JSIGHT 0.3\nENUM @e1\n  [1, 2]\nTYPE @leaf\n  {\n    \"v\": 1 // {enum: @e1}\n  }\nTYPE @mid\n  {\"l\": @leaf}\nTYPE @top\n  {\"m\": @mid, \"arr\": [@leaf]}\n",
	// a TAG with a Description, used by interactions written before and after it
	"JSIGHT 0.3\nGET /cats\n  Tags @pets\n  200 any\nTAG @pets // Pets\n  Description\n    all about pets\nURL /rpc\n  Protocol json-rpc-2.0\n  Method listPets\n    Tags @pets\n    Params\n      {}\nGET /dogs\n  Tags @pets\n  200 any\n",
	// a Tags directive that names the tag made up from the path of an untagged interaction (must not depend on the order)
	"JSIGHT 0.3\nGET /x\n  Tags @cats\n  200 any\nGET /cats\n  200 any\nGET /dogs\n  200 any\n",
	"JSIGHT 0.3\nGET /x\n  Tags @cats\n  200 any\nTAG @cats // Mine\nGET /cats\n  200 any\nGET /cats/{id}\n  200 any\n",
	// URL-level Tags and a top-level method with the same path and no Tags of its own
	"JSIGHT 0.3\nTAG @pets\nURL /cats\n  Tags @pets\n  GET\n    200 any\nPOST /cats\n  200 any\nPUT /cats/{id}\n  200 any\n",
	"JSIGHT 0.3\nTAG @pets\nURL /rpc\n  Tags @pets\n  Protocol json-rpc-2.0\n  Method a\n    Params\n      {}\nGET /rpc\n  200 any\nURL /u\n  GET\n    200 any\nPOST /u\n  Tags @pets\n  200 any\n",
	// documents that are rejected in every order (ambiguous paths; the same name declared by two blocks of different
	// kinds; a reference that no block satisfies): if a change makes one order acceptable, the other orders must follow
	"JSIGHT 0.3\nURL /api/{version}/rpc\n  Protocol json-rpc-2.0\n  Method m\n    Params\n      {}\nGET /api/{v}/status\n  200 any\nTAG @t\n",
	"JSIGHT 0.3\nURL /api/{version}\nGET /api/{v}\n  200 any\nPOST /other\n  200 any\n",
	"JSIGHT 0.3\nGET /a/{x}/b\n  200 any\nURL /a/{y}/b\n  POST\n    200 any\nTYPE @t any\n",
	"JSIGHT 0.3\nGET /u\n  200 @late\nTYPE @other any\nENUM @e\n  [1]\n",
	"JSIGHT 0.3\nGET /u\n  OperationId same\n  200 any\nPOST /u\n  OperationId same\n  200 any\nTAG @t\n",
	// four types with more than one cycle (back references optional)
	"JSIGHT 0.3\nTYPE @project\n  {\"board\": @board}\nTYPE @board\n  {\"card\": @card}\nTYPE @card\n  {\n    \"b\": @board, // {optional: true}\n    \"p\": @project, // {optional: true}\n    \"c\": @comment // {optional: true}\n  }\nTYPE @comment\n  {\n    \"p\": @project // {optional: true}\n  }\nGET /p\n  200 @project\n",
	// one regex type embedded by two types and a response
	"JSIGHT 0.3\nTYPE @r regex\n  /[a-z]{8}/\nTYPE @a\n  {\"x\": @r}\nTYPE @b\n  {\"y\": @r}\nGET /r\n  200 @r\n",
	// or-shortcut and regex types, json-rpc
	"JSIGHT 0.3\nTYPE @u\n  @v | @w\nTYPE @v regex\n  /a+/\nTYPE @w\n  \"s\"\nURL /rpc\n  Protocol json-rpc-2.0\n  Method m\n    Params\n      {\"u\": @u}\nGET /rpc2\n  200 @u\n",
}

func runC15(c *chk.Ctx) {
	p := c15Params{FullPermUpTo: chk.Pick(c, 4, 5), MaxBytes: chk.Pick(c, 20000, 200000), ModelBudget: chk.Pick(c, 3, 4)}
	r := c.Pool.Run("c15", p)
	c.Merge(r, "permutations")
	c.Cov["params"] = p
	c.Cov["rule"] = "accepted documents whose top-level blocks after JSIGHT are all TYPE/ENUM/SERVER/TAG/INFO/URL/method blocks without MACRO/PASTE (every qualifying corpus file, every generated model within the budget, hand-written type-dependency shapes: chain, diamond, mutual recursion, allOf, enum use, or, use before declaration) x all permutations of the blocks when there are at most N blocks, otherwise all adjacent transpositions, all rotations and the reversal; oracle: accepted, every section has the same entries with deep-equal content, key order of every section / interaction order inside every tag = new text order. non-trivial = distinct permuted text"
}
