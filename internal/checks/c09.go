package checks

import (
	"encoding/json"
	"fmt"
	"os"
	"strings"

	"verif/internal/chk"
	"verif/internal/impl"
	"verif/internal/oj"
	"verif/internal/ref"
	"verif/internal/run"
)

// C09 — INCLUDE transparency on corpus documents: every cut of a sibling run at every level into its own file.

func init() {
	chk.Register(&chk.Check{ID: "C09", Level: "exploration", Run: runC09})
	chk.RegisterWorker("c09", workC09)
}

type c09Params struct {
	AllRuns  bool `json:"all_runs"`
	Pairs    bool `json:"pairs"`
	MaxBytes int  `json:"max_bytes"`
}

type cut struct{ s, e int } // [s, e) of the original text

// splitProject builds the project for a set of nested/disjoint cuts (each either inside or outside every other).
// c09Lead is written at the start of every piece file (blank lines and a comment are insignificant there).
var c09Lead = ""

func splitProject(text string, cuts []cut, finalNL bool, crlfPieces bool, dirs ...bool) (impl.Project, func(origIndex int) (string, int)) {
	pr := impl.Project{Files: map[string]string{}, Root: "root.jst"}
	useDirs := len(dirs) > 0 && dirs[0]
	// parent cut (innermost enclosing) and rank among the parent's direct children
	parentOf := func(i int) int {
		best := -1
		for j, o := range cuts {
			if j != i && o.s <= cuts[i].s && cuts[i].e <= o.e && !(o.s == cuts[i].s && o.e == cuts[i].e) {
				if best < 0 || (cuts[best].s <= o.s && o.e <= cuts[best].e) {
					best = j
				}
			}
		}
		return best
	}
	var path func(i int) string
	path = func(i int) string {
		if !useDirs {
			return fmt.Sprintf("p%d.jst", i)
		}
		p := parentOf(i)
		if p < 0 {
			return fmt.Sprintf("d%d/m.jst", i)
		}
		rank := 0
		for j := range cuts {
			if j < i && parentOf(j) == p {
				rank++
			}
		}
		pp := path(p)
		return pp[:strings.LastIndex(pp, "/")+1] + fmt.Sprintf("t%d.jst", rank)
	}
	// the name as written in the INCLUDE directive: relative to the including file's directory
	written := func(i int) string {
		p := path(i)
		if useDirs && parentOf(i) >= 0 {
			return p[strings.LastIndex(p, "/")+1:]
		}
		return p
	}
	name := path
	// render file content for region [s,e) excluding directly nested cuts (replaced by INCLUDE lines)
	type piece struct {
		file string
		segs [][3]int // [origStart, origEnd, offsetInFile]
	}
	var pieces []piece
	var render func(s, e int, self int) string
	render = func(s, e int, self int) string {
		var b strings.Builder
		p := piece{file: "root.jst"}
		if self >= 0 {
			p.file = name(self)
			b.WriteString(c09Lead)
		}
		pos := s
		for i, c := range cuts {
			if i == self || c.s < s || c.e > e {
				continue
			}
			// directly nested: not inside another cut that is itself inside [s,e)
			direct := true
			for j, o := range cuts {
				if j != i && j != self && o.s >= s && o.e <= e && o.s <= c.s && c.e <= o.e && !(o.s == c.s && o.e == c.e) {
					direct = false
				}
			}
			if !direct || c.s < pos {
				continue
			}
			p.segs = append(p.segs, [3]int{pos, c.s, b.Len()})
			b.WriteString(text[pos:c.s])
			b.WriteString(indentOf(text, c.s) + "INCLUDE " + written(i) + "\n")
			pos = c.e
		}
		p.segs = append(p.segs, [3]int{pos, e, b.Len()})
		b.WriteString(text[pos:e])
		pieces = append(pieces, p)
		return b.String()
	}
	// cuts must be sorted by start for the direct-nesting loop to emit in order
	pr.Files["root.jst"] = render(0, len(text), -1)
	for i, c := range cuts {
		content := render(c.s, c.e, i)
		if !finalNL {
			content = strings.TrimSuffix(content, "\n")
		}
		if crlfPieces {
			content = strings.ReplaceAll(content, "\n", "\r\n")
		}
		pr.Files[name(i)] = content
	}
	locate := func(idx int) (string, int) {
		// innermost piece holding idx
		best := -1
		for i, p := range pieces {
			for _, sg := range p.segs {
				if idx >= sg[0] && idx < sg[1] {
					if best < 0 || true {
						best = i
					}
					_ = sg
				}
			}
		}
		if best < 0 {
			return "root.jst", -1
		}
		p := pieces[best]
		for _, sg := range p.segs {
			if idx >= sg[0] && idx < sg[1] {
				off := sg[2] + (idx - sg[0])
				content := pr.Files[p.file]
				if crlfPieces && p.file != "root.jst" {
					// offsets shift by one per preceding newline
					off += strings.Count(strings.ReplaceAll(content, "\r\n", "\n")[:min(off, len(strings.ReplaceAll(content, "\r\n", "\n")))], "\n")
				}
				l, _, _ := ref.Locate(content, off)
				return p.file, l
			}
		}
		return "root.jst", -1
	}
	return pr, locate
}

// c09ExtraDocs: rule-rejected documents that the corpus lacks (the error is found among several candidates, or while a
// PASTE is expanded), cut like the corpus documents.
var c09ExtraDocs = []string{
	// a cycle of two macros, both pasted; the definitions are far apart
	"JSIGHT 0.3\nTYPE @t any\nMACRO @a\n(\n  GET /a1\n    200 any\n  PASTE @b\n)\nGET /x\n  200 @t\nTAG @tag\nGET /y\n  200 any\nMACRO @b\n(\n  GET /b1\n    200 any\n  PASTE @a\n)\nPASTE @a\n",
	// two self-recursive macros
	"JSIGHT 0.3\nMACRO @zz\n(\n  GET /z\n    200 any\n  PASTE @zz\n)\nTYPE @t any\nGET /x\n  200 @t\nMACRO @aa\n(\n  GET /a\n    200 any\n  PASTE @aa\n)\n",
	// an error raised while a PASTE is expanded (Body directly under GET), the macro defined before and after its use
	"JSIGHT 0.3\nMACRO @resp\n(\n  Body any\n)\nGET /a\n  PASTE @resp\nGET /b\n  200 any\n",
	"JSIGHT 0.3\nGET /b\n  200 any\nGET /a\n  PASTE @resp\nMACRO @resp\n(\n  Body any\n)\n",
	// two duplicate names of different kinds, two undefined types
	"JSIGHT 0.3\nTYPE @t any\nENUM @e\n  [1]\nGET /a\n  200 @t\nENUM @e\n  [2]\nTYPE @t any\n",
	"JSIGHT 0.3\nGET /a\n  200 @n1\nTAG @x\nGET /b\n  200 @n2\n",
}

func workC09(w *run.W) {
	var p c09Params
	json.Unmarshal(w.Params, &p)
	dir := workerDir(w)
	defer os.RemoveAll(dir)
	c09Shared(w, dir)
	var cidx int64
	docs := corpusFiles()
	extra := map[string]string{}
	for i, t := range c09ExtraDocs {
		n := fmt.Sprintf("extra:%d", i)
		extra[n] = t
		docs = append(docs, n)
	}
	for fi, f := range docs {
		raw, _ := os.ReadFile(f)
		text := string(raw)
		if t, ok := extra[f]; ok {
			text = t
		}
		if strings.Contains(text, "\r") || hasInclude(text) || len(text) > p.MaxBytes || strings.Contains(text, "\x00") {
			continue
		}
		if !strings.HasSuffix(text, "\n") {
			text += "\n" // whole-line cuts need a terminated last line; adding the final newline is checked to be neutral below
		}
		orig := impl.BuildMem("root.jst", text)
		if orig.Panic != nil {
			continue
		}
		if orig.Err != nil && lexicalError(orig.Err.Msg) {
			continue
		}
		ds, ok := analyse(text)
		if !ok {
			continue
		}
		var origJSON string
		if orig.Err == nil {
			j := impl.ToJson(&orig.J)
			if j.Err != "" || j.Panic != nil {
				continue
			}
			origJSON = j.Out
		}
		if w.Shard == 0 {
			w.Count("documents", 1)
		}
		// enumerate runs
		var runs []cut
		var runsIdx [][2]int
		parentsList := append([]int{-1}, func() []int {
			var o []int
			for i := range ds.dirs {
				o = append(o, i)
			}
			return o
		}()...)
		for _, par := range parentsList {
			kids := ds.children(par)
			for a := 0; a < len(kids); a++ {
				for b := a; b < len(kids); b++ {
					if !p.AllRuns && b-a > 1 && !(a <= 1 && b == len(kids)-1) {
						continue
					}
					sibs := kids[a : b+1]
					bad := false
					for _, s := range sibs {
						if ds.kindOf(s) == "JSIGHT" {
							bad = true
						}
					}
					if bad || !ds.contiguous(sibs) {
						continue
					}
					s, e := ds.extent(sibs[0], sibs[len(sibs)-1])
					if e <= s {
						continue
					}
					runs = append(runs, cut{s, e})
					runsIdx = append(runsIdx, [2]int{sibs[0], sibs[len(sibs)-1]})
				}
			}
		}
		try := func(name string, cuts []cut, finalNL, crlf bool) {
			cidx++
			if !w.Mine(cidx) || !w.Begin(fmt.Sprintf("%s/%s/%d", f, name, cidx)) {
				return
			}
			defer w.End()
			c09Lead = ""
			if strings.HasSuffix(name, "-led") {
				c09Lead = "\n  \n# piece\n\n"
			}
			pr, locate := splitProject(text, cuts, finalNL, crlf, strings.HasPrefix(name, "dirs-"))
			c09Lead = ""
			w.Count("cuts", 1)
			w.Nontrivial(showProject(pr))
			b := pr.Build(dir)
			detail := map[string]any{"file": f, "project": pr}
			if b.Panic != nil {
				w.Violation("C09", b.Panic.Key(), fmt.Sprintf("%s split by INCLUDE panics: %s", f, b.Panic.Value), detail)
				return
			}
			if orig.Err == nil {
				if b.Err != nil {
					key := "accepted->rejected"
					if !finalNL && strings.Contains(b.Err.Msg, "after schema") {
						key = "piece-without-final-newline-ending-in-comment"
					}
					w.Violation("C09", key, fmt.Sprintf("%s is accepted, the split project is rejected: %s (%s:%d)\n%s", f, b.Err.Msg, b.Err.File, b.Err.Line, trunc(showProject(pr), 1500)), detail)
					return
				}
				j := impl.ToJson(&b.J)
				if j.Out != origJSON {
					ja, _ := oj.ParseOrdered([]byte(origJSON))
					jb, _ := oj.ParseOrdered([]byte(j.Out))
					if crlf && oj.Diff(normJSON(ja, false, ""), normJSON(jb, false, ""), "") == "" {
						return // CRLF piece: line ends inside multi-line notes legitimately become CRLF (see C08)
					}
					w.Violation("C09", "catalog-changed", fmt.Sprintf("%s: the split project yields another catalog: %s\n%s", f, oj.Diff(ja, jb, ""), trunc(showProject(pr), 1500)), detail)
				}
				return
			}
			if b.Err == nil {
				w.Violation("C09", "rejected->accepted", fmt.Sprintf("%s is rejected (%s), the split project is accepted\n%s", f, orig.Err.Msg, trunc(showProject(pr), 1500)), detail)
				return
			}
			if b.Err.Msg != orig.Err.Msg {
				w.Violation("C09", "message-changed:"+errClass(orig.Err.Msg), fmt.Sprintf("%s: %q becomes %q in the split project\n%s", f, orig.Err.Msg, b.Err.Msg, trunc(showProject(pr), 1500)), detail)
				return
			}
			if int(orig.Err.Index) < len(text) {
				wf, wl := locate(int(orig.Err.Index))
				if wl > 0 && (b.Err.File != wf || int(b.Err.Line) != wl) {
					w.Violation("C09", "error-location", fmt.Sprintf("%s: error %q should be at %s:%d in the split project, reported at %s:%d\n%s", f, orig.Err.Msg, wf, wl, b.Err.File, b.Err.Line, trunc(showProject(pr), 1500)), detail)
				}
			}
		}
		for i, r := range runs {
			try("single", []cut{r}, true, false)
			try("single-no-final-newline", []cut{r}, false, false)
			if i%2 == 0 {
				try("single-led", []cut{r}, true, false) // the piece starts with blank lines and a comment
			}
			if i%3 == 0 {
				try("single-crlf-piece", []cut{r}, true, true)
			}
		}
		// cuts at directive boundaries that do not follow the tree: any text-order range of up to three directives with
		// balanced parentheses (e.g. a directive with only its first children; the rest stays in the including file)
		{
			known := map[cut]bool{}
			for _, r := range runs {
				known[r] = true
			}
			extra := 0
			for si := range ds.syms {
				if ds.syms[si].Close || ds.syms[si].Kind == "JSIGHT" {
					continue
				}
				depth, ndir := 0, 0
				for e := si; e < len(ds.syms) && ndir <= 3; e++ {
					if ds.syms[e].Close {
						depth--
						if depth < 0 {
							break
						}
					} else {
						ndir++
						if ndir > 3 {
							break
						}
						if ds.syms[e].Kind == "JSIGHT" {
							break
						}
						if ds.syms[e].Explicit {
							depth++
						}
					}
					if depth == 0 {
						c := cut{ds.symOffset(si), ds.symOffset(e + 1)}
						if c.e > c.s && !known[c] {
							known[c] = true
							try("text-order-range", []cut{c}, true, false)
							extra++
						}
					}
				}
				if !p.AllRuns && extra > 150 {
					break
				}
			}
		}
		// nested chains along one path, depth 2 and 3
		for i := range ds.dirs {
			if ds.kindOf(i) == "JSIGHT" {
				continue
			}
			k1 := ds.children(i)
			if len(k1) == 0 {
				continue
			}
			s0, e0 := ds.extent(i, i)
			s1, e1 := ds.extent(k1[0], k1[len(k1)-1])
			if !ds.contiguous(k1) || !(s0 < s1 && e1 <= e0) {
				continue
			}
			try("nested-2", []cut{{s0, e0}, {s1, e1}}, true, false)
			k2 := ds.children(k1[0])
			if len(k2) > 0 && ds.contiguous(k2) {
				s2, e2 := ds.extent(k2[0], k2[len(k2)-1])
				if s1 < s2 && e2 <= e1 {
					try("nested-3", []cut{{s0, e0}, {s1, e1}, {s2, e2}}, true, false)
				}
			}
		}
		// two sub-directories whose pieces include further pieces under the same written name (t0.jst)
		{
			type nest struct{ outer, inner cut }
			var nests []nest
			for i := range ds.dirs {
				if ds.kindOf(i) == "JSIGHT" {
					continue
				}
				k1 := ds.children(i)
				if len(k1) == 0 || !ds.contiguous(k1) {
					continue
				}
				s0, e0 := ds.extent(i, i)
				s1, e1 := ds.extent(k1[0], k1[len(k1)-1])
				if s0 < s1 && e1 <= e0 {
					nests = append(nests, nest{cut{s0, e0}, cut{s1, e1}})
				}
			}
			cnt := 0
			for a := 0; a < len(nests) && cnt < 12; a++ {
				for b := a + 1; b < len(nests) && cnt < 12; b++ {
					if nests[a].outer.e <= nests[b].outer.s {
						try("dirs-two-nested", []cut{nests[a].outer, nests[a].inner, nests[b].outer, nests[b].inner}, true, false)
						cnt++
					}
				}
			}
		}
		if p.Pairs && len(runs) <= 30 {
			for i := 0; i < len(runs); i++ {
				for j := i + 1; j < len(runs); j++ {
					a, b := runs[i], runs[j]
					if a.e <= b.s || b.e <= a.s { // disjoint
						if a.s > b.s {
							a, b = b, a
						}
						try("pair", []cut{a, b}, true, false)
					}
				}
			}
		}
		if fi%101 == 0 && len(runs) > 0 && w.Shard == 0 {
			pr, _ := splitProject(text, []cut{runs[len(runs)/2]}, true, false)
			w.Sample(map[string]any{"file": f, "split": pr.Files})
		}
	}
}

// c09Shared: the same piece included from several places (where that is legal), against the document with the piece
// written out at every place.
func c09Shared(w *run.W, dir string) {
	runs := []string{
		"  GET\n    Path\n    {\"id\": 1}\n    200 any\n",
		"  GET\n    200 any\n  POST\n    Request any\n    201 any\n",
		"  Tags @t\n  GET\n    200 any\n",
		"  DELETE\n    Description\n      some text\n    204 empty\n",
		"  GET\n    Query\n    {\"q\": 1}\n    200\n      Headers\n      {\"h\": \"1\"}\n      Body @T\n",
	}
	parents := [][]string{
		{"URL /cats/{id}\n", "URL /dogs/{id}\n"},
		{"URL /cats/{id}\n", "URL /dogs/{id}\n", "URL /pigs/{id}\n"},
		{"URL /a/{id}\n(\n", "URL /b/{id}\n(\n"},
	}
	head := "JSIGHT 0.3\nTAG @t\nTYPE @T\n  {\"x\": 1}\n"
	respRuns := []string{"  404 any\n  500 @T\n", "  Description\n    shared text\n  200 any\n"}
	methods := []string{"GET /m1\n", "POST /m2\n", "DELETE /m3/{id}\n"}
	type cs struct {
		name, unsplit string
		pr            impl.Project
	}
	var cases []cs
	for ri, r := range runs {
		for pi, ps := range parents {
			var u, sp strings.Builder
			u.WriteString(head)
			sp.WriteString(head)
			for _, p := range ps {
				u.WriteString(p + r)
				sp.WriteString(p + "  INCLUDE parts/piece.jst\n")
				if strings.HasSuffix(p, "(\n") {
					u.WriteString(")\n")
					sp.WriteString(")\n")
				}
			}
			cases = append(cases, cs{fmt.Sprintf("shared/run%d/parents%d", ri, pi), u.String(),
				impl.Project{Root: "root.jst", Files: map[string]string{"root.jst": sp.String(), "parts/piece.jst": r}}})
		}
	}
	for ri, r := range respRuns {
		var u, sp strings.Builder
		u.WriteString(head)
		sp.WriteString(head)
		for _, m := range methods {
			u.WriteString(m + r)
			sp.WriteString(m + "  INCLUDE common.jst\n")
		}
		cases = append(cases, cs{fmt.Sprintf("shared/resp%d", ri), u.String(), impl.Project{Root: "root.jst", Files: map[string]string{"root.jst": sp.String(), "common.jst": r}}})
		// the shared piece is itself included by an intermediate piece that is included twice
		var sp2 strings.Builder
		sp2.WriteString(head)
		for _, m := range methods[:2] {
			sp2.WriteString(m + "  INCLUDE mid/wrap.jst\n")
		}
		var u2 strings.Builder
		u2.WriteString(head)
		for _, m := range methods[:2] {
			u2.WriteString(m + r)
		}
		cases = append(cases, cs{fmt.Sprintf("shared/resp%d/through-intermediate", ri), u2.String(),
			impl.Project{Root: "root.jst", Files: map[string]string{"root.jst": sp2.String(), "mid/wrap.jst": "# wrapper\nINCLUDE inner.jst\n", "mid/inner.jst": r}}})
	}
	// twins: blocks of identical layout and different content, each in a file of its own (every body has the same
	// coordinates in every file)
	twin := func(name string, blocks []string) {
		var u, sp strings.Builder
		u.WriteString(head)
		sp.WriteString(head)
		files := map[string]string{}
		for i, b := range blocks {
			u.WriteString(b)
			fn := fmt.Sprintf("twin%d.jst", i)
			sp.WriteString("INCLUDE " + fn + "\n")
			files[fn] = b
		}
		files["root.jst"] = sp.String()
		cases = append(cases, cs{"twins/" + name, u.String(), impl.Project{Root: "root.jst", Files: files}})
	}
	httpTwin := func(n, v string) string {
		return "POST /" + n + "\n  Query\n  {\"q" + n + "\": " + v + "}\n  Request\n    Headers\n    {\"X-" + n + "\": \"" + v + "\"}\n    Body\n    {\"b" + n + "\": " + v + "}\n  200\n    Headers\n    {\"R-" + n + "\": \"" + v + "\"}\n    Body\n    [\"" + n + "\"]\n  404\n  {\"e" + n + "\": " + v + "}\n"
	}
	twin("http", []string{httpTwin("cat", "1"), httpTwin("dog", "2"), httpTwin("pig", "3")})
	rpcTwin := func(n, v string) string {
		return "URL /" + n + "\n  Protocol json-rpc-2.0\n  Method m" + n + "\n    Params\n    {\"p" + n + "\": " + v + "}\n    Result\n    [\"" + n + "\", " + v + "]\n"
	}
	twin("rpc", []string{rpcTwin("cat", "1"), rpcTwin("dog", "2")})
	pathTwin := func(n, v string) string {
		return "GET /" + n + "/{i" + n + "}\n  Path\n  {\"i" + n + "\": " + v + "}\n  200 regex\n  /" + n + "+/\n"
	}
	twin("path-and-regex", []string{pathTwin("cat", "1"), pathTwin("dog", "2")})
	typeTwin := func(n, v string) string {
		return "TYPE @" + n + "\n{\"k" + n + "\": " + v + "}\nENUM @e" + n + "\n[\"" + n + "\", " + v + "]\n"
	}
	twin("types-and-enums", []string{typeTwin("cat", "1"), typeTwin("dog", "2")})
	for i, c := range cases {
		if !w.Mine(int64(i)) || !w.Begin(c.name) {
			continue
		}
		w.Count("cuts", 1)
		w.Count("shared_piece_cases", 1)
		w.Nontrivial(showProject(c.pr))
		a := impl.BuildMem("root.jst", c.unsplit)
		b := c.pr.Build(dir)
		oa, ob := "ERR "+a.Err.Tuple(), "ERR "+b.Err.Tuple()
		if a.Err == nil && a.Panic == nil {
			oa = impl.ToJson(&a.J).String()
		}
		if b.Err == nil && b.Panic == nil {
			ob = impl.ToJson(&b.J).String()
		}
		if a.Err != nil {
			w.Violation("C09", "harness:shared-piece-document-invalid", c.name+": the unsplit document is rejected: "+a.Err.Msg+"\n"+c.unsplit, nil)
		} else if oa != ob {
			w.Violation("C09", "shared-piece", fmt.Sprintf("%s: a piece included from several places does not give the catalog of the document with the piece written out: %s\n%s", c.name, firstDiff(ob, oa), showProject(c.pr)), map[string]any{"project": c.pr, "unsplit": c.unsplit})
		}
		w.End()
	}
}

func runC09(c *chk.Ctx) {
	p := c09Params{AllRuns: !c.Quick(), Pairs: !c.Quick(), MaxBytes: chk.Pick(c, 20000, 60000)}
	r := c.Pool.Run("c09", p)
	c.Merge(r, "cuts")
	c.Cov["params"] = p
	c.Cov["rule"] = "every INCLUDE-free LF corpus document that is accepted or rule-rejected and whose directive tree the reference automaton confirms x every contiguous run of sibling directives at every level (quick: runs of length 1-2 and the whole sibling list; thorough: all runs and all pairs of disjoint cuts) moved to its own file and replaced by INCLUDE, with and without final newline in the piece, LF and CRLF pieces, plus every text-order range of up to three directives with balanced parentheses (cuts that do not follow the tree: a directive with only its first children), nested include chains of depth 2 and 3 along a path, pieces placed in two sub-directories that include further pieces under the same written name, and hand-written documents in which one piece is included from two or three places (also through an intermediate piece). Generated models x INCLUDE moves are covered by C02 (catalog equality against the model) and C03/C07 (rule errors inside an INCLUDEd file). non-trivial = distinct split project"
}
