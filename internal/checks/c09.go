package checks

import (
	"encoding/json"
	"fmt"
	"os"
	"strings"

	"verif/internal/chk"
	"verif/internal/impl"
	"verif/internal/oj"
	"verif/internal/ref"
	"verif/internal/run"
)

// C09 — INCLUDE transparency on corpus documents: every cut of a sibling run at every level into its own file.

func init() {
	chk.Register(&chk.Check{ID: "C09", Level: "exploration", Run: runC09})
	chk.RegisterWorker("c09", workC09)
}

type c09Params struct {
	AllRuns  bool `json:"all_runs"`
	Pairs    bool `json:"pairs"`
	MaxBytes int  `json:"max_bytes"`
}

type cut struct{ s, e int } // [s, e) of the original text

// splitProject builds the project for a set of nested/disjoint cuts (each either inside or outside every other).
func splitProject(text string, cuts []cut, finalNL bool, crlfPieces bool) (impl.Project, func(origIndex int) (string, int)) {
	pr := impl.Project{Files: map[string]string{}, Root: "root.jst"}
	name := func(i int) string { return fmt.Sprintf("p%d.jst", i) }
	// render file content for region [s,e) excluding directly nested cuts (replaced by INCLUDE lines)
	type piece struct {
		file   string
		segs   [][3]int // [origStart, origEnd, offsetInFile]
	}
	var pieces []piece
	var render func(s, e int, self int) string
	render = func(s, e int, self int) string {
		var b strings.Builder
		p := piece{file: "root.jst"}
		if self >= 0 {
			p.file = name(self)
		}
		pos := s
		for i, c := range cuts {
			if i == self || c.s < s || c.e > e {
				continue
			}
			// directly nested: not inside another cut that is itself inside [s,e)
			direct := true
			for j, o := range cuts {
				if j != i && j != self && o.s >= s && o.e <= e && o.s <= c.s && c.e <= o.e && !(o.s == c.s && o.e == c.e) {
					direct = false
				}
			}
			if !direct || c.s < pos {
				continue
			}
			p.segs = append(p.segs, [3]int{pos, c.s, b.Len()})
			b.WriteString(text[pos:c.s])
			b.WriteString(indentOf(text, c.s) + "INCLUDE " + name(i) + "\n")
			pos = c.e
		}
		p.segs = append(p.segs, [3]int{pos, e, b.Len()})
		b.WriteString(text[pos:e])
		pieces = append(pieces, p)
		return b.String()
	}
	// cuts must be sorted by start for the direct-nesting loop to emit in order
	pr.Files["root.jst"] = render(0, len(text), -1)
	for i, c := range cuts {
		content := render(c.s, c.e, i)
		if !finalNL {
			content = strings.TrimSuffix(content, "\n")
		}
		if crlfPieces {
			content = strings.ReplaceAll(content, "\n", "\r\n")
		}
		pr.Files[name(i)] = content
	}
	locate := func(idx int) (string, int) {
		// innermost piece holding idx
		best := -1
		for i, p := range pieces {
			for _, sg := range p.segs {
				if idx >= sg[0] && idx < sg[1] {
					if best < 0 || true {
						best = i
					}
					_ = sg
				}
			}
		}
		if best < 0 {
			return "root.jst", -1
		}
		p := pieces[best]
		for _, sg := range p.segs {
			if idx >= sg[0] && idx < sg[1] {
				off := sg[2] + (idx - sg[0])
				content := pr.Files[p.file]
				if crlfPieces && p.file != "root.jst" {
					// offsets shift by one per preceding newline
					off += strings.Count(strings.ReplaceAll(content, "\r\n", "\n")[:min(off, len(strings.ReplaceAll(content, "\r\n", "\n")))], "\n")
				}
				l, _, _ := ref.Locate(content, off)
				return p.file, l
			}
		}
		return "root.jst", -1
	}
	return pr, locate
}

func workC09(w *run.W) {
	var p c09Params
	json.Unmarshal(w.Params, &p)
	dir := workerDir(w)
	defer os.RemoveAll(dir)
	var cidx int64
	for fi, f := range corpusFiles() {
		raw, _ := os.ReadFile(f)
		text := string(raw)
		if strings.Contains(text, "\r") || hasInclude(text) || len(text) > p.MaxBytes || strings.Contains(text, "\x00") {
			continue
		}
		if !strings.HasSuffix(text, "\n") {
			text += "\n" // whole-line cuts need a terminated last line; adding the final newline is checked to be neutral below
		}
		orig := impl.BuildMem("root.jst", text)
		if orig.Panic != nil {
			continue
		}
		if orig.Err != nil && lexicalError(orig.Err.Msg) {
			continue
		}
		ds, ok := analyse(text)
		if !ok {
			continue
		}
		var origJSON string
		if orig.Err == nil {
			j := impl.ToJson(&orig.J)
			if j.Err != "" || j.Panic != nil {
				continue
			}
			origJSON = j.Out
		}
		if w.Shard == 0 {
			w.Count("documents", 1)
		}
		// enumerate runs
		var runs []cut
		var runsIdx [][2]int
		parentsList := append([]int{-1}, func() []int {
			var o []int
			for i := range ds.dirs {
				o = append(o, i)
			}
			return o
		}()...)
		for _, par := range parentsList {
			kids := ds.children(par)
			for a := 0; a < len(kids); a++ {
				for b := a; b < len(kids); b++ {
					if !p.AllRuns && b-a > 1 && !(a <= 1 && b == len(kids)-1) {
						continue
					}
					sibs := kids[a : b+1]
					bad := false
					for _, s := range sibs {
						if ds.kindOf(s) == "JSIGHT" {
							bad = true
						}
					}
					if bad || !ds.contiguous(sibs) {
						continue
					}
					s, e := ds.extent(sibs[0], sibs[len(sibs)-1])
					if e <= s {
						continue
					}
					runs = append(runs, cut{s, e})
					runsIdx = append(runsIdx, [2]int{sibs[0], sibs[len(sibs)-1]})
				}
			}
		}
		try := func(name string, cuts []cut, finalNL, crlf bool) {
			cidx++
			if !w.Mine(cidx) || !w.Begin(fmt.Sprintf("%s/%s/%d", f, name, cidx)) {
				return
			}
			defer w.End()
			pr, locate := splitProject(text, cuts, finalNL, crlf)
			w.Count("cuts", 1)
			w.Nontrivial(showProject(pr))
			b := pr.Build(dir)
			detail := map[string]any{"file": f, "project": pr}
			if b.Panic != nil {
				w.Violation("C09", b.Panic.Key(), fmt.Sprintf("%s split by INCLUDE panics: %s", f, b.Panic.Value), detail)
				return
			}
			if orig.Err == nil {
				if b.Err != nil {
					key := "accepted->rejected"
					if !finalNL && strings.Contains(b.Err.Msg, "after schema") {
						key = "piece-without-final-newline-ending-in-comment"
					}
					w.Violation("C09", key, fmt.Sprintf("%s is accepted, the split project is rejected: %s (%s:%d)\n%s", f, b.Err.Msg, b.Err.File, b.Err.Line, trunc(showProject(pr), 1500)), detail)
					return
				}
				j := impl.ToJson(&b.J)
				if j.Out != origJSON {
					ja, _ := oj.ParseOrdered([]byte(origJSON))
					jb, _ := oj.ParseOrdered([]byte(j.Out))
					if crlf && oj.Diff(normJSON(ja, false, ""), normJSON(jb, false, ""), "") == "" {
						return // CRLF piece: line ends inside multi-line notes legitimately become CRLF (see C08)
					}
					w.Violation("C09", "catalog-changed", fmt.Sprintf("%s: the split project yields another catalog: %s\n%s", f, oj.Diff(ja, jb, ""), trunc(showProject(pr), 1500)), detail)
				}
				return
			}
			if b.Err == nil {
				w.Violation("C09", "rejected->accepted", fmt.Sprintf("%s is rejected (%s), the split project is accepted\n%s", f, orig.Err.Msg, trunc(showProject(pr), 1500)), detail)
				return
			}
			if b.Err.Msg != orig.Err.Msg {
				w.Violation("C09", "message-changed:"+errClass(orig.Err.Msg), fmt.Sprintf("%s: %q becomes %q in the split project\n%s", f, orig.Err.Msg, b.Err.Msg, trunc(showProject(pr), 1500)), detail)
				return
			}
			if int(orig.Err.Index) < len(text) {
				wf, wl := locate(int(orig.Err.Index))
				if wl > 0 && (b.Err.File != wf || int(b.Err.Line) != wl) {
					w.Violation("C09", "error-location", fmt.Sprintf("%s: error %q should be at %s:%d in the split project, reported at %s:%d\n%s", f, orig.Err.Msg, wf, wl, b.Err.File, b.Err.Line, trunc(showProject(pr), 1500)), detail)
				}
			}
		}
		for i, r := range runs {
			try("single", []cut{r}, true, false)
			try("single-no-final-newline", []cut{r}, false, false)
			if i%3 == 0 {
				try("single-crlf-piece", []cut{r}, true, true)
			}
		}
		// nested chains along one path, depth 2 and 3
		for i := range ds.dirs {
			if ds.kindOf(i) == "JSIGHT" {
				continue
			}
			k1 := ds.children(i)
			if len(k1) == 0 {
				continue
			}
			s0, e0 := ds.extent(i, i)
			s1, e1 := ds.extent(k1[0], k1[len(k1)-1])
			if !ds.contiguous(k1) || !(s0 < s1 && e1 <= e0) {
				continue
			}
			try("nested-2", []cut{{s0, e0}, {s1, e1}}, true, false)
			k2 := ds.children(k1[0])
			if len(k2) > 0 && ds.contiguous(k2) {
				s2, e2 := ds.extent(k2[0], k2[len(k2)-1])
				if s1 < s2 && e2 <= e1 {
					try("nested-3", []cut{{s0, e0}, {s1, e1}, {s2, e2}}, true, false)
				}
			}
		}
		if p.Pairs && len(runs) <= 60 {
			for i := 0; i < len(runs); i++ {
				for j := i + 1; j < len(runs); j++ {
					a, b := runs[i], runs[j]
					if a.e <= b.s || b.e <= a.s { // disjoint
						if a.s > b.s {
							a, b = b, a
						}
						try("pair", []cut{a, b}, true, false)
					}
				}
			}
		}
		if fi%101 == 0 && len(runs) > 0 && w.Shard == 0 {
			pr, _ := splitProject(text, []cut{runs[len(runs)/2]}, true, false)
			w.Sample(map[string]any{"file": f, "split": pr.Files})
		}
	}
}

func runC09(c *chk.Ctx) {
	p := c09Params{AllRuns: !c.Quick(), Pairs: !c.Quick(), MaxBytes: chk.Pick(c, 20000, 200000)}
	r := c.Pool.Run("c09", p)
	c.Merge(r, "cuts")
	c.Cov["params"] = p
	c.Cov["rule"] = "every INCLUDE-free LF corpus document that is accepted or rule-rejected and whose directive tree the reference automaton confirms x every contiguous run of sibling directives at every level (quick: runs of length 1-2 and the whole sibling list; thorough: all runs and all pairs of disjoint cuts) moved to its own file and replaced by INCLUDE, with and without final newline in the piece, LF and CRLF pieces, plus nested include chains of depth 2 and 3 along a path. Generated models x INCLUDE moves are covered by C02 (catalog equality against the model) and C03/C07 (rule errors inside an INCLUDEd file). non-trivial = distinct split project"
}
