package checks

import (
	"encoding/json"
	"fmt"
	"os"
	"strings"

	"verif/internal/chk"
	"verif/internal/dt"
	"verif/internal/model"
	"verif/internal/run"
)

// C03 — single-fault injection: every valid model x every fault class x every site x layouts.

func init() {
	chk.Register(&chk.Check{ID: "C03", Level: "fault_enumeration", Run: runC03})
	chk.RegisterWorker("c03", workC03)
}

type fault struct {
	Class string
	Tree  *dt.File
	Msg   []string // any of these substrings
	// AltIDs: other node ids at which the error may legitimately be located (e.g. either of two similar paths)
	AltIDs []string
	// Line offset inside the body (for faults inside a schema body); -1 = keyword line
	BodyLine int
}

const faultID = "FAULT"

func findAll(nn []*dt.Node, pred func(*dt.Node) bool) [][]int {
	var out [][]int
	var rec func(nn []*dt.Node, path []int)
	rec = func(nn []*dt.Node, path []int) {
		for i, n := range nn {
			p := append(append([]int{}, path...), i)
			if pred(n) {
				out = append(out, p)
			}
			rec(n.Kids, p)
		}
	}
	rec(nn, nil)
	return out
}

func nodeAt(f *dt.File, path []int) *dt.Node {
	nn := f.Nodes
	var n *dt.Node
	for _, i := range path {
		n = nn[i]
		nn = n.Kids
	}
	return n
}

func kw(k string) func(*dt.Node) bool { return func(n *dt.Node) bool { return n.Kw == k } }

var annForbidden = map[string]bool{"JSIGHT": true, "INFO": true, "Title": true, "Version": true, "Description": true, "BaseUrl": true, "URL": true,
	"Query": true, "Request": true, "Headers": true, "Path": true, "Tags": true, "OperationId": true, "Protocol": true, "Params": true, "Result": true}

// faults enumerates every single-fault variant of a valid tree.
func faults(base *dt.File) []fault {
	var out []fault
	add := func(class string, t *dt.File, msg ...string) *fault {
		out = append(out, fault{Class: class, Tree: t, Msg: msg, BodyLine: -1})
		return &out[len(out)-1]
	}
	mark := func(n *dt.Node) *dt.Node { n.ID = faultID; return n }
	appendRoot := func(t *dt.File, n *dt.Node) { t.Nodes = append(t.Nodes, n) }
	dupNamed := func(class, keyword string, msg string) {
		for _, p := range findAll(base.Nodes, kw(keyword)) {
			if len(p) != 1 {
				continue
			}
			t := base.Clone()
			c := nodeAt(t, p).Clone()
			clearIDs(c)
			appendRoot(t, mark(c))
			add(class, t, msg)
		}
	}
	dupNamed("dup-type", "TYPE", "has already been declared before")
	dupNamed("dup-enum", "ENUM", "has already been declared before")
	dupNamed("dup-server", "SERVER", "has already been declared before")
	dupNamed("dup-tag", "TAG", "has already been declared before")
	// duplicate interaction: every stand-alone method, every grouped method
	for _, p := range findAll(base.Nodes, func(n *dt.Node) bool { return dt.IsMethod(n.Kw) }) {
		t := base.Clone()
		orig := nodeAt(t, p)
		c := orig.Clone()
		clearIDs(c)
		mark(c)
		if len(p) == 1 {
			appendRoot(t, c)
		} else {
			parent := nodeAt(t, p[:len(p)-1])
			parent.Kids = append(parent.Kids, c)
		}
		add("dup-interaction", t, "this method has already been defined in the resource")
	}
	// duplicate JSON-RPC method
	for _, p := range findAll(base.Nodes, kw("Method")) {
		t := base.Clone()
		parent := nodeAt(t, p[:len(p)-1])
		c := nodeAt(t, p).Clone()
		clearIDs(c)
		parent.Kids = append(parent.Kids, mark(c))
		add("dup-rpc-method", t, "this method has already been defined in the resource")
	}
	// duplicate macro
	{
		t := base.Clone()
		m1 := dt.N("MACRO", "@mdup").Add(dt.N("TYPE", "@mdupT", "any"))
		m1.Explicit = true
		m2 := m1.Clone()
		appendRoot(t, m1)
		appendRoot(t, mark(m2))
		add("dup-macro", t, "has already been declared before")
	}
	// duplicate OperationId
	if mm := findAll(base.Nodes, func(n *dt.Node) bool { return dt.IsMethod(n.Kw) }); len(mm) >= 2 {
		for i := 0; i < len(mm); i++ {
			for j := i + 1; j < len(mm); j++ {
				t := base.Clone()
				a, b := nodeAt(t, mm[i]), nodeAt(t, mm[j])
				if hasKid(a, "OperationId") || hasKid(b, "OperationId") {
					continue
				}
				a.Kids = append([]*dt.Node{dt.N("OperationId", "sameOp")}, a.Kids...)
				b.Kids = append([]*dt.Node{mark(dt.N("OperationId", "sameOp"))}, b.Kids...)
				add("dup-operationid", t, "has already been defined")
			}
		}
	}
	// similar paths / duplicated path parameter
	{
		t := base.Clone()
		appendRoot(t, dt.N("GET", "/sim/{one}").Add(dt.N("200", "any")).WithID("SIM1"))
		appendRoot(t, mark(dt.N("GET", "/sim/{two}").Add(dt.N("200", "any"))))
		f := add("similar-paths", t, "the ambiguous paths are not allowed")
		f.AltIDs = []string{"SIM1"}
		// paths with two parameters: every way in which the names of the second path can differ from the first one's
		// (first only, last only, both, swapped) in three shapes - the paths are ambiguous whenever any name differs
		for si, shape := range []string{"/sim2/{%s}/toys/{%s}", "/sim2/{%s}/{%s}", "/sim2/{%s}/toys/{%s}/x"} {
			for vi, names := range [][2]string{{"q", "b"}, {"a", "q"}, {"q", "r"}, {"b", "a"}} {
				tt := base.Clone()
				id := fmt.Sprintf("SIM2-%d-%d", si, vi)
				appendRoot(tt, dt.N("GET", fmt.Sprintf(shape, "a", "b")).Add(dt.N("200", "any")).WithID(id))
				appendRoot(tt, mark(dt.N("GET", fmt.Sprintf(shape, names[0], names[1])).Add(dt.N("200", "any"))))
				ff := add("similar-paths", tt, "the ambiguous paths are not allowed")
				ff.AltIDs = []string{id}
			}
		}
		t2 := base.Clone()
		appendRoot(t2, mark(dt.N("GET", "/dup/{p}/x/{p}").Add(dt.N("200", "any"))))
		add("dup-path-parameter", t2, "the parameter of the path is duplicated")
	}
	// second Title / Version / Description inside INFO
	for _, p := range findAll(base.Nodes, kw("INFO")) {
		info := nodeAt(base, p)
		for _, k := range info.Kids {
			t := base.Clone()
			in := nodeAt(t, p)
			c := k.Clone()
			clearIDs(c)
			in.Kids = append(in.Kids, mark(c))
			add("second-"+k.Kw, t, "the directive has already been defined")
		}
	}
	// second Description of a TAG, an HTTP method, a JSON-RPC method
	for _, p := range findAll(base.Nodes, kw("Description")) {
		if len(p) < 2 {
			continue
		}
		par := nodeAt(base, p[:len(p)-1])
		if par.Kw == "INFO" {
			continue
		}
		t := base.Clone()
		pn := nodeAt(t, p[:len(p)-1])
		c := nodeAt(t, p).Clone()
		clearIDs(c)
		// directly after the first one
		idx := p[len(p)-1]
		rest := append([]*dt.Node{}, pn.Kids[idx+1:]...)
		pn.Kids = append(append(pn.Kids[:idx+1:idx+1], mark(c)), rest...)
		add("second-Description-in-"+par.Kind(), t, "the directive has already been defined")
	}
	// second Query / Request body / Headers
	for _, p := range findAll(base.Nodes, kw("Query")) {
		t := base.Clone()
		parent := nodeAt(t, p[:len(p)-1])
		c := nodeAt(t, p).Clone()
		clearIDs(c)
		parent.Kids = append(parent.Kids, mark(c))
		add("second-Query", t, "the directive has already been defined")
	}
	for _, p := range findAll(base.Nodes, kw("Headers")) {
		t := base.Clone()
		parent := nodeAt(t, p[:len(p)-1])
		c := nodeAt(t, p).Clone()
		clearIDs(c)
		// insert right after the first Headers (before Body)
		idx := p[len(p)-1] + 1
		parent.Kids = append(parent.Kids[:idx:idx], append([]*dt.Node{mark(c)}, parent.Kids[idx:]...)...)
		add("second-Headers", t, "the directive has already been defined")
	}
	for _, p := range findAll(base.Nodes, kw("Request")) {
		t := base.Clone()
		parent := nodeAt(t, p[:len(p)-1])
		c := nodeAt(t, p).Clone()
		clearIDs(c)
		// only the body is to be second: a copied Headers child would be a second fault
		var kk []*dt.Node
		for _, k := range c.Kids {
			if k.Kw != "Headers" {
				kk = append(kk, k)
			}
		}
		c.Kids = kk
		idx := p[len(p)-1] + 1
		parent.Kids = append(parent.Kids[:idx:idx], append([]*dt.Node{c}, parent.Kids[idx:]...)...)
		// the offending directive is the one that carries the second body: the Request itself or its child Body
		if b := kid(c, "Body"); b != nil {
			mark(b)
		} else {
			mark(c)
		}
		add("second-Request-body", t, "the directive has already been defined")
	}
	// a second Body child inside one Request
	for _, p := range findAll(base.Nodes, kw("Request")) {
		if r := nodeAt(base, p); hasKid(r, "Body") {
			t := base.Clone()
			rr := nodeAt(t, p)
			c := kid(rr, "Body").Clone()
			clearIDs(c)
			rr.Kids = append(rr.Kids, mark(c))
			add("second-Body-child", t, "the directive has already been defined")
		} else if r.Body == dt.SchemaBody && len(r.Params) == 0 {
			// the Request carries its body itself; a child Body is a second one
			t := base.Clone()
			rr := nodeAt(t, p)
			rr.Kids = append(rr.Kids, mark(dt.N("Body", "any")))
			add("second-Body-inline-plus-child", t, "the directive has already been defined")
		}
	}
	// undefined type / tag / macro
	for _, p := range findAll(base.Nodes, func(n *dt.Node) bool { return dt.IsMethod(n.Kw) }) {
		t := base.Clone()
		m := nodeAt(t, p)
		m.Kids = append(m.Kids, mark(dt.N("299", "@undefinedType")))
		add("undefined-type-param", t, "not found")
		t2 := base.Clone()
		m2 := nodeAt(t2, p)
		m2.Kids = append(m2.Kids, mark(dt.N("299").WithBody(dt.SchemaBody, []string{`{"r": @undefinedType}`})))
		f := add("undefined-type-body", t2, "not found")
		f.BodyLine = 0
		if !hasKid(m, "Tags") {
			t3 := base.Clone()
			m3 := nodeAt(t3, p)
			m3.Kids = append([]*dt.Node{mark(dt.N("Tags", "@undefinedTag"))}, m3.Kids...)
			add("undefined-tag", t3, "tag not found")
		}
	}
	{
		t := base.Clone()
		appendRoot(t, dt.N("TAG", "@sepTag"))
		appendRoot(t, mark(dt.N("PASTE", "@undefinedMacro")))
		add("undefined-macro", t, "macro not found")
		t2 := base.Clone()
		appendRoot(t2, mark(dt.N("TYPE", "@usesUndefined").WithBody(dt.SchemaBody, []string{`{"r": @undefinedType}`})))
		f := add("undefined-type-in-type", t2, "not found")
		f.BodyLine = 0
	}
	// PASTE without a name: at the root, inside an unpasted MACRO body, inside a pasted MACRO body
	{
		t := base.Clone()
		appendRoot(t, dt.N("TAG", "@sepTag2"))
		appendRoot(t, mark(dt.N("PASTE")))
		add("missing-parameter-PASTE", t, "required parameter(s) not specified")
		t2 := base.Clone()
		m := dt.N("MACRO", "@holdsNamelessPaste").Add(dt.N("TYPE", "@hnpT", "any"), mark(dt.N("PASTE")))
		m.Explicit = true
		appendRoot(t2, m)
		add("missing-parameter-PASTE-in-unpasted-macro", t2, "required parameter(s) not specified")
	}
	// missing required parameter
	for _, c := range []struct{ k, parent string }{{"SERVER", ""}, {"TAG", ""}, {"Title", "INFO"}, {"Version", "INFO"}, {"BaseUrl", "SERVER"}, {"OperationId", "GET"}, {"Tags", "GET"}} {
		if c.parent == "" {
			t := base.Clone()
			n := mark(dt.N(c.k))
			if c.k == "SERVER" {
				n.Add(dt.N("BaseUrl", "http://x"))
			}
			appendRoot(t, n)
			add("missing-parameter-"+c.k, t, "required parameter(s) not specified")
			continue
		}
		for _, p := range findAll(base.Nodes, func(n *dt.Node) bool { return n.Kw == c.parent || (c.parent == "GET" && dt.IsMethod(n.Kw)) }) {
			par := nodeAt(base, p)
			if hasKid(par, c.k) {
				continue
			}
			t := base.Clone()
			pn := nodeAt(t, p)
			pn.Kids = append([]*dt.Node{mark(dt.N(c.k))}, pn.Kids...)
			add("missing-parameter-"+c.k, t, "required parameter(s) not specified")
		}
	}
	// missing name of a TYPE, an ENUM, a MACRO
	{
		t := base.Clone()
		appendRoot(t, mark(dt.N("TYPE")).WithBody(dt.SchemaBody, []string{"{}"}))
		add("missing-parameter-TYPE", t, "required parameter(s) not specified", "The type name \"\" is not valid")
		t = base.Clone()
		appendRoot(t, mark(dt.N("TYPE", "any")))
		add("missing-parameter-TYPE-any", t, "required parameter(s) not specified", "The type name \"\" is not valid")
		t = base.Clone()
		appendRoot(t, mark(dt.N("ENUM")).WithBody(dt.EnumBody, []string{"[1, 2]"}))
		add("missing-parameter-ENUM", t, "required parameter(s) not specified")
		t = base.Clone()
		m := mark(dt.N("MACRO")).Add(dt.N("TYPE", "@nnmT", "any"))
		m.Explicit = true
		appendRoot(t, m)
		add("missing-parameter-MACRO", t, "required parameter(s) not specified")
	}
	// missing body
	for _, p := range findAll(base.Nodes, func(n *dt.Node) bool { return dt.IsMethod(n.Kw) }) {
		m := nodeAt(base, p)
		if !hasKid(m, "Request") {
			t := base.Clone()
			mm := nodeAt(t, p)
			mm.Kids = append(mm.Kids, mark(dt.N("Request")).Add(dt.N("Headers").WithBody(dt.SchemaBody, []string{`{"h": "1"}`})))
			add("missing-request-body", t, "undefined request body for resource")
		}
		t2 := base.Clone()
		m2 := nodeAt(t2, p)
		m2.Kids = append(m2.Kids, mark(dt.N("298")).Add(dt.N("Headers").WithBody(dt.SchemaBody, []string{`{"h": "1"}`})))
		add("missing-response-body", t2, "undefined response body for resource")
		// ... and as the first of several responses
		t3 := base.Clone()
		m3 := nodeAt(t3, p)
		first := len(m3.Kids)
		for i, k := range m3.Kids {
			if k.Kind() == "CODE" {
				first = i
				break
			}
		}
		bodyless := mark(dt.N("297")).Add(dt.N("Headers").WithBody(dt.SchemaBody, []string{`{"h": "1"}`}))
		m3.Kids = append(m3.Kids[:first:first], append([]*dt.Node{bodyless, dt.N("296", "any")}, m3.Kids[first:]...)...)
		add("missing-response-body-not-last", t3, "undefined response body for resource")
	}
	{
		t := base.Clone()
		m := mark(dt.N("MACRO", "@emptyMacro"))
		m.NoExplicit = true
		appendRoot(t, m)
		add("empty-macro", t, "the macros cannot be empty")
		if len(findAll(base.Nodes, kw("INFO"))) == 0 {
			t2 := base.Clone()
			i := mark(dt.N("INFO"))
			t2.Nodes = append(t2.Nodes[:1:1], append([]*dt.Node{i}, t2.Nodes[1:]...)...)
			add("empty-info", t2, "the INFO directive cannot be empty")
		}
	}
	// forbidden annotation on every directive whose kind forbids it
	for _, p := range findAll(base.Nodes, func(n *dt.Node) bool { return annForbidden[n.Kw] && n.Ann == "" }) {
		t := base.Clone()
		n := nodeAt(t, p)
		n.Ann = "not allowed here"
		mark(n)
		add("forbidden-annotation-"+n.Kw, t, "the annotation is not allowed for this directive")
	}
	// JSIGHT missing / repeated / not first
	if len(base.Nodes) > 1 {
		t := base.Clone()
		t.Nodes = t.Nodes[1:]
		mark(t.Nodes[0])
		add("jsight-missing", t, "The first directive in the document must be JSIGHT")
		t2 := base.Clone()
		appendRoot(t2, mark(dt.N("JSIGHT", "0.3")))
		add("jsight-repeated", t2, "The directive JSIGHT has already been specified before")
		t3 := base.Clone()
		js := t3.Nodes[0]
		t3.Nodes = append([]*dt.Node{t3.Nodes[1], js}, t3.Nodes[2:]...)
		mark(t3.Nodes[0])
		add("jsight-not-first", t3, "The first directive in the document must be JSIGHT")
		// only a MACRO definition precedes JSIGHT
		t4 := base.Clone()
		clearIDs2(t4)
		pre := mark(dt.N("MACRO", "@beforeJsight")).Add(dt.N("TYPE", "@bjT", "any"))
		pre.Explicit = true
		t4.Nodes = append([]*dt.Node{pre}, t4.Nodes...)
		add("jsight-not-first-after-macro", t4, "The first directive in the document must be JSIGHT")
	}
	return out
}

func clearIDs2(f *dt.File) {
	for _, n := range f.Nodes {
		if n.ID == faultID {
			n.ID = ""
		}
	}
}

func clearIDs(n *dt.Node) {
	n.ID = ""
	for _, k := range n.Kids {
		clearIDs(k)
	}
}
func hasKid(n *dt.Node, k string) bool { return kid(n, k) != nil }
func kid(n *dt.Node, k string) *dt.Node {
	for _, c := range n.Kids {
		if c.Kw == k {
			return c
		}
	}
	return nil
}

// topAncestor returns the index of the top-level node that contains the FAULT node.
func topAncestor(f *dt.File) int {
	for i, n := range f.Nodes {
		found := false
		dt.Walk([]*dt.Node{n}, func(x *dt.Node, _ int) {
			if x.ID == faultID {
				found = true
			}
		})
		if found {
			return i
		}
	}
	return -1
}

type c03Params struct {
	Budget    int  `json:"budget"`
	Deviation int  `json:"deviation"`
	Placement bool `json:"placement"`
}

// c03RichDocs: a few dense documents in which lists, names and shapes repeat (two Tags directives with the same list, two
// methods under one URL, several responses, ...): a fault at the second of two similar sites must still be found.
func c03RichDocs() []*model.Doc {
	p := model.DefaultPalette()
	tags := []string{"@cats"}
	h := func(m, path string, extra func(*model.HTTP)) *model.HTTP {
		x := &model.HTTP{Method: m, Path: path, Tags: tags, Resps: []model.Resp{p.Resps[0], p.Resps[1]}}
		if extra != nil {
			extra(x)
		}
		return x
	}
	d1 := &model.Doc{Blocks: []any{p.Infos[1], p.Servers[0], p.Servers[1], p.Tags[0], p.Tags[1], p.Types[0], p.Types[5], p.Enums[0],
		h("GET", "/a", func(x *model.HTTP) { x.Desc = "gets"; x.Query = p.Queries[0] }),
		h("POST", "/a", func(x *model.HTTP) { x.Req = p.Reqs[1]; x.OpID = "postA" }),
		h("GET", "/a/{id}", func(x *model.HTTP) { x.PathS = model.Obj(model.P("id", model.Int("5"))); x.Req = p.Reqs[0] }),
		p.RPCs[0],
	}}
	d2 := &model.Doc{Blocks: []any{p.Tags[0], p.Tags[1], p.Types[0],
		&model.Group{Path: "/g", Tags: []string{"@cats"}, Methods: []*model.HTTP{
			{Method: "GET", Path: "/g", Tags: []string{"@cats"}, Resps: []model.Resp{p.Resps[2]}},
			{Method: "POST", Path: "/g", Tags: []string{"@cats"}, Req: p.Reqs[1], Resps: []model.Resp{p.Resps[4], p.Resps[5]}}}},
		p.RPCs[1],
	}}
	return []*model.Doc{d1, d2}
}

func workC03(w *run.W) {
	var p c03Params
	json.Unmarshal(w.Params, &p)
	dir := workerDir(w)
	defer os.RemoveAll(dir)
	pal := model.DefaultPalette()
	idx := int64(-1)
	rich := c03RichDocs()
	only := map[string]bool{"sep": true, "sep-after-text": true, "blank": true, "quote": true, "ann": true, "trail": true, "explicit": true, "prebody": true, "textparen": true, "body": true, "postbody": true, "paramorder": true, "annglue": true}
	richMode := false
	var fidx int64
	each := func(fn func(d *model.Doc)) {
		richMode = true
		for _, d := range rich {
			fn(d)
		}
		richMode = false
		model.EnumDocs(pal, p.Budget, 0, fn)
	}
	each(func(d *model.Doc) {
		idx++
		// the dense documents are shared out fault by fault, the enumerated ones document by document
		if !richMode && !w.Mine(idx) {
			return
		}
		if !w.Begin(fmt.Sprintf("doc%d", idx)) {
			return
		}
		defer w.End()
		for _, grouped := range []int{0, 1} {
			l0 := canonGlobal.Layout()
			l0.Only = map[string]bool{"group": true}
			l0.Choices = []int{grouped}
			l0.Reset()
			base := d.ToTree(&l0)
			if grouped == 1 && l0.Cost() == 0 {
				continue // no HTTP block: grouping makes no difference
			}
			for _, fc := range faults(base) {
				fc := fc
				if richMode {
					fidx++
					if !w.Mine(fidx) {
						continue
					}
				}
				w.Touch()
				placements := []int{-1}
				if p.Placement && !strings.HasPrefix(fc.Class, "jsight-") {
					placements = []int{-1, 0, 2} // in place; top-level ancestor moved into MACRO+PASTE; into an INCLUDE file
				}
				placements = append(placements, 4) // in place, the document ends with an unpasted MACRO written without parentheses
				for _, pl := range placements {
					tree := fc.Tree
					if pl == 4 {
						m := dt.N("MACRO", "@zz").Add(dt.N("GET", "/zz").Add(dt.N("200", "any")))
						m.NoExplicit = true
						tree = &dt.File{Name: tree.Name, Nodes: append(append([]*dt.Node{}, tree.Nodes...), m)}
					} else if pl >= 0 {
						ti := topAncestor(tree)
						if ti <= 0 {
							continue
						}
						n := tree.Nodes[ti]
						if pl == 0 && (n.Kw == "MACRO" || n.Kw == "TAG" || n.Kw == "JSIGHT") {
							continue
						}
						if n.Kw == "JSIGHT" {
							continue
						}
						tree = applyMove(tree, move{Path: nil, I: ti, J: ti, Kind: pl}, 9)
					}
					base := canonGlobal.Layout()
					base.Only = only
					dev := p.Deviation
					if pl >= 0 {
						dev = 0
					}
					dt.EnumLayouts(func(l *dt.Layout) *dt.File { return tree }, base, dev, func(f *dt.File, r *dt.Rendered, l *dt.Layout) bool {
						c03Case(w, fc, pl, r, dir)
						return true
					})
				}
			}
		}
	})
}

func c03Case(w *run.W, fc fault, placement int, r *dt.Rendered, dir string) {
	w.Count("cases", 1)
	w.Count("class_"+fc.Class, 1)
	pr := project(r)
	b := pr.Build(dir)
	plName := map[int]string{-1: "in-place", 0: "in-pasted-macro", 2: "in-included-file", 4: "in-place-before-a-trailing-macro"}[placement]
	detail := map[string]any{"project": pr, "class": fc.Class, "placement": plName}
	if b.Panic != nil {
		w.Violation("C03", b.Panic.Key(), fmt.Sprintf("[%s/%s] build panics: %s\n%s", fc.Class, plName, b.Panic.Value, showProject(pr)), detail)
		return
	}
	if b.Err == nil {
		w.Violation("C03", "accepted:"+fc.Class, fmt.Sprintf("[%s/%s] document with an injected fault is accepted\n%s", fc.Class, plName, showProject(pr)), detail)
		return
	}
	w.Nontrivial(showProject(pr))
	okMsg := false
	for _, m := range fc.Msg {
		if strings.Contains(b.Err.Msg, m) {
			okMsg = true
		}
	}
	if !okMsg {
		w.Violation("C03", "message:"+fc.Class+":"+plName, fmt.Sprintf("[%s/%s] rejected with %q, expected the message of the class (%q)\n%s", fc.Class, plName, b.Err.Msg, fc.Msg[0], showProject(pr)), detail)
		return
	}
	ids := append([]string{faultID}, fc.AltIDs...)
	okLoc := false
	var want []string
	for _, id := range ids {
		loc, ok := r.Locs[id]
		if !ok {
			continue
		}
		line := loc.Line
		if fc.BodyLine >= 0 {
			if bl, ok := r.BodyLocs[id]; ok {
				line = bl.Line + fc.BodyLine
			}
		}
		want = append(want, fmt.Sprintf("%s:%d", loc.File, line))
		if b.Err.File == loc.File && int(b.Err.Line) == line {
			okLoc = true
		}
	}
	if !okLoc {
		w.Violation("C03", "location:"+fc.Class+":"+plName, fmt.Sprintf("[%s/%s] error %q located at %s:%d, offending directive is at %v\n%s", fc.Class, plName, b.Err.Msg, b.Err.File, b.Err.Line, want, showProject(pr)), detail)
		return
	}
	if w.Shard == 2 {
		w.Sample(map[string]any{"class": fc.Class, "placement": plName, "files": pr.Files, "error": b.Err.Msg, "line": b.Err.Line})
	}
}

func runC03(c *chk.Ctx) {
	p := c03Params{Budget: chk.Pick(c, 2, 3), Deviation: chk.Pick(c, 1, 1), Placement: true}
	r := c.Pool.Run("c03", p)
	c.Merge(r, "cases")
	classes := map[string]int64{}
	for k, v := range c.Counts() {
		if strings.HasPrefix(k, "class_") {
			classes[strings.TrimPrefix(k, "class_")] = v
		}
	}
	c.Cov["fault_classes"] = classes
	c.Cov["params"] = p
	c.Cov["rule"] = "every valid model within the node budget (stand-alone and URL-grouped form) x every fault class x every site at which the class applies x {canonical layout, every single-site layout deviation, fault moved into a pasted MACRO body, fault moved into an INCLUDEd file}; oracle: rejected, message of the class, file and line of the offending directive taken from the renderer's position map; non-trivial = rejected, distinct by rendered project"
}
