package checks

import (
	"fmt"
	"strings"
)

// Two small exhaustive families appended to the "special" documents of the accepted-input checks (C04/C05/C17):
//   - tag lists: every Tags parameter list of length 1..4 over three declared tags (a list that repeats a name - adjacent or
//     not - must be rejected; if a change accepts it, the cross-reference validator sees a tag listing the interaction twice);
//   - sibling paths: every ordered selection of 2..3 distinct interactions from paths that differ only by a trailing slash
//     or a trailing parameter (each keeps its own catalog key and its own OpenAPI path item, whatever the order).
func init() {
	tags := []string{"@a", "@b", "@c"}
	var rec func(seq []string)
	rec = func(seq []string) {
		if len(seq) > 0 {
			accNegatives = append(accNegatives, struct{ Name, Text string }{
				"tags-list:" + strings.Join(seq, ","),
				"JSIGHT 0.3\nTAG @a\nTAG @b\nTAG @c\nGET /cats\n  Tags " + strings.Join(seq, " ") + "\n  200 any\nURL /r\n  Protocol json-rpc-2.0\n  Method m\n    Tags " + strings.Join(seq, " ") + "\n    Params\n    {}\n"})
		}
		if len(seq) == 4 {
			return
		}
		for _, t := range tags {
			rec(append(append([]string{}, seq...), t))
		}
	}
	rec(nil)
	items := []string{"GET /cats", "POST /cats", "GET /cats/", "POST /cats/", "GET /cats/{id}", "GET /cats/{id}/"}
	var sel func(seq []int)
	sel = func(seq []int) {
		if len(seq) >= 2 {
			var sb strings.Builder
			sb.WriteString("JSIGHT 0.3\n")
			var names []string
			for _, i := range seq {
				fmt.Fprintf(&sb, "%s\n  200 any\n", items[i])
				names = append(names, items[i])
			}
			accNegatives = append(accNegatives, struct{ Name, Text string }{"sibling-paths:" + strings.Join(names, ","), sb.String()})
		}
		if len(seq) == 3 {
			return
		}
	next:
		for i := range items {
			for _, j := range seq {
				if i == j {
					continue next
				}
			}
			sel(append(append([]int{}, seq...), i))
		}
	}
	sel(nil)
}
