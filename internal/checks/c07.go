package checks

import (
	"encoding/json"
	"fmt"
	"os"
	"strings"

	"verif/internal/chk"
	"verif/internal/dt"
	"verif/internal/impl"
	"verif/internal/model"
	"verif/internal/ref"
	"verif/internal/run"
)

// C07 — truthful locations and include traces on every rejected member of enumerated families.

func init() {
	chk.Register(&chk.Check{ID: "C07", Level: "exploration", Run: runC07})
	chk.RegisterWorker("c07graphs", workC07Graphs)
	chk.RegisterWorker("c07faults", workC07Faults)
	chk.RegisterWorker("c07seq", workC07Seq)
	chk.RegisterWorker("c07cuts", workC07Cuts)
	chk.RegisterWorker("c07types", workC07Types)
	chk.RegisterWorker("c07index", workC07Index)
}

// c07Generic checks file membership, index, line/column, quote; wantTrace (nil = do not check, empty = no trace)
// is the expected list of "file:line" entries after the message.
func c07Generic(w *run.W, fam string, pr impl.Project, e *impl.ErrObs, wantTrace []string, checkTrace bool, earlier ...[]string) {
	detail := map[string]any{"project": pr, "error": e}
	content, ok := pr.Files[e.File]
	if !ok {
		w.Violation("C07", "file-not-in-project", fmt.Sprintf("[%s] error %q names file %q which is not a file of the project\n%s", fam, e.Msg, e.File, trunc(showProject(pr), 700)), detail)
		return
	}
	if int(e.Index) >= len(content) {
		cls := "other"
		if strings.Contains(e.Msg, "end of file") || strings.Contains(e.Msg, "parenthesis is not closed") || strings.Contains(e.Msg, "The first directive in the document must be JSIGHT") ||
			(int(e.Index) == len(content) && e.Line == 0) {
			// an error detected when the input ends: reported at the position after the last byte, line 0
			cls = "end-of-input"
		}
		w.Violation("C07", "index-outside-file:"+cls, fmt.Sprintf("[%s] error %q has index %d in %q which has %d bytes (line %d, column %d)\n%s", fam, e.Msg, e.Index, e.File, len(content), e.Line, e.Col, trunc(showProject(pr), 700)), detail)
		// line/column/quote cannot be judged for such an index; the include trace still can
	} else {
		line, col, quote := ref.Locate(content, int(e.Index))
		if int(e.Line) != line || int(e.Col) != col {
			w.Violation("C07", "line-column", fmt.Sprintf("[%s] error %q at index %d of %q reports line %d column %d; the index is on line %d column %d\n%s", fam, e.Msg, e.Index, e.File, e.Line, e.Col, line, col, trunc(showProject(pr), 700)), detail)
			return
		}
		// the quote is the line's text; leading blanks may or may not be removed (an all-blank cut of a long line is kept as it is)
		rawLine := content[int(e.Index)-(col-1):]
		if k := strings.IndexAny(rawLine, "\r\n"); k >= 0 {
			rawLine = rawLine[:k]
		}
		if len(rawLine) > 200 {
			rawLine = rawLine[:197] + "..."
		}
		// (a text cut inside a CRLF pair ends with a lone CR: the reference keeps it, the quote may drop it)
		if e.Quote != quote && e.Quote != rawLine && e.Quote != strings.TrimRight(quote, "\r") {
			w.Violation("C07", "quote", fmt.Sprintf("[%s] error %q quote %q, the line reads %q\n%s", fam, e.Msg, e.Quote, quote, trunc(showProject(pr), 700)), detail)
			return
		}
	}
	// the message itself carries no "file:line" entry of the project: the trace follows the message exactly once
	for f := range pr.Files {
		if strings.Contains(e.Msg, "\n"+f+":") {
			w.Violation("C07", "include-trace:embedded-in-message", fmt.Sprintf("[%s] the message of the error contains an include-trace entry (%s:...), so Error() lists the chain of INCLUDEs twice:\n%s\n%s", fam, f, e.Full, trunc(showProject(pr), 900)), detail)
			return
		}
	}
	if checkTrace {
		want := e.Msg
		for _, t := range wantTrace {
			want += "\n" + t
		}
		if e.Full != want {
			cls := traceDiffClass(pr, e.Full, want)
			for _, et := range earlier {
				// the trace of an earlier inclusion of the same including file (stale tracer cache)
				if e.Full == e.Msg+"\n"+strings.Join(et, "\n") && len(et) > 0 {
					cls = "stale-tracer-of-including-file"
				}
			}
			if cls == "stale-tracer-of-including-file" && scannerOwnError(pr, e) {
				// the recorded finding is the tracer cached in the *directives* of an including file, which errors located on a
				// directive carry; an error the scanner raises itself belongs to no directive, takes its trace from the live
				// scanner stack and is right on the pinned tree - a stale trace there is a different violation
				cls = "stale-trace-on-lexical-error"
			}
			w.Violation("C07", "include-trace:"+cls, fmt.Sprintf("[%s] Error() is\n%s\nexpected\n%s\n%s", fam, e.Full, want, trunc(showProject(pr), 900)), detail)
			return
		}
	}
	w.Count("located_ok", 1)
}

// scannerOwnError: is this the error the raw scanner (no directive tree, no context resolution, no INCLUDE) raises by itself on the
// bytes of the file the error names - same message, same index? Such an error belongs to no directive.
func scannerOwnError(pr impl.Project, e *impl.ErrObs) bool {
	content, ok := pr.Files[e.File]
	if !ok {
		return false
	}
	o := impl.Scan(content, 0)
	return o.Panic == nil && o.Err != nil && o.Err.Msg == e.Msg && o.Err.Index == e.Index
}

// traceDiffClass: "line-of-earlier-include-in-same-file" when the only difference is that an INCLUDE entry carries the
// line of an earlier INCLUDE directive of the same including file (stale tracer cache); "other" otherwise.
func traceDiffClass(pr impl.Project, got, want string) string {
	g, x := strings.Split(got, "\n"), strings.Split(want, "\n")
	if len(g) != len(x) {
		return "other"
	}
	stale := false
	for i := range g {
		if g[i] == x[i] {
			continue
		}
		gi, xi := strings.LastIndex(g[i], ":"), strings.LastIndex(x[i], ":")
		if gi < 0 || xi < 0 || g[i][:gi] != x[i][:xi] {
			return "other"
		}
		var gl, xl int
		fmt.Sscan(g[i][gi+1:], &gl)
		fmt.Sscan(x[i][xi+1:], &xl)
		content := pr.Files[g[i][:gi]]
		content = strings.ReplaceAll(strings.ReplaceAll(content, "\r\n", "\n"), "\r", "\n")
		lines := strings.Split(content, "\n")
		if gl >= xl || gl < 1 || gl > len(lines) || !strings.HasPrefix(strings.TrimLeft(lines[gl-1], " \t"), "INCLUDE") {
			return "other"
		}
		stale = true
	}
	if stale {
		return "stale-tracer-of-including-file"
	}
	return "other"
}

// ---- include graph family

type c07GraphParams struct {
	Files int `json:"files"`
}

type occ struct {
	chain []string // "file:line" of each INCLUDE followed, outermost first
}

var c07Faults = []struct {
	Name, Line string
	Col        int // 0-based offset of the error inside the line
	Msg        string
	SecondOcc  bool
}{
	{"scan-error", "GETS /a", 3, "invalid character", false},
	{"context-error", `Title "x"`, 0, "incorrect context for the directive", false},
	{"rule-error", "PASTE @undefinedMacro", 0, "macro not found", false},
	{"include-missing", "INCLUDE nofile.jst", 0, "does not exist", false},
	{"duplicate-by-double-inclusion", "TYPE @dupT any", 0, "has already been declared before", true},
	{"unclosed-parenthesis-at-end-of-file", "GET /p\n(", 0, "parenthesis is not closed", false},
}

func workC07Graphs(w *run.W) {
	var p c07GraphParams
	json.Unmarshal(w.Params, &p)
	dir := workerDir(w)
	defer os.RemoveAll(dir)
	n := p.Files
	// per file i: ordered list of <= 2 targets among files j > i
	var listsFor func(i int) [][]int
	listsFor = func(i int) [][]int {
		out := [][]int{nil}
		for a := i + 1; a < n; a++ {
			out = append(out, []int{a})
		}
		for a := i + 1; a < n; a++ {
			for b := i + 1; b < n; b++ {
				out = append(out, []int{a, b})
			}
		}
		return out
	}
	all := make([][][]int, n)
	total := 1
	for i := 0; i < n; i++ {
		all[i] = listsFor(i)
		total *= len(all[i])
	}
	name := func(i int) string {
		if i == 0 {
			return "root.jst"
		}
		return fmt.Sprintf("sub/f%d.jst", i)
	}
	incName := func(from, to int) string {
		if from == 0 {
			return fmt.Sprintf("sub/f%d.jst", to)
		}
		return fmt.Sprintf("f%d.jst", to)
	}
	var idx int64
	for c := 0; c < total; c++ {
		graph := make([][]int, n)
		x := c
		for i := 0; i < n; i++ {
			graph[i] = all[i][x%len(all[i])]
			x /= len(all[i])
		}
		for ff := 0; ff < n; ff++ { // file that holds the fault
			for fi, fk := range c07Faults {
				for pos := 0; pos <= len(graph[ff]); pos++ { // fault before include #pos
					for ei, eol := range []string{"\n", "\r\n", "\r", "deep\n", "long\n", "urls\n"} {
						// "deep": the fault line is indented by 230 blanks; "long": it carries a 260-byte annotation (quote rule)
						variant := ""
						if strings.HasSuffix(eol, "\n") && len(eol) > 2 {
							variant, eol = eol[:4], "\n"
						}
						if variant == "urls" && strings.Contains(fk.Name, "unclosed-parenthesis") {
							continue // the URL lines of the files included next would stand inside the open '(' - another error
						}
						idx++
						if !w.Mine(idx) {
							continue
						}
						id := fmt.Sprintf("graph%d/f%d/%s/pos%d/eol%d", c, ff, fk.Name, pos, ei)
						if !w.Begin(id) {
							continue
						}
						// build files
						pr := impl.Project{Files: map[string]string{}, Root: "root.jst"}
						incLine := make([][]int, n) // line of each INCLUDE
						faultLine := 0
						for i := 0; i < n; i++ {
							var lines []string
							if i == 0 {
								lines = append(lines, "JSIGHT 0.3")
							}
							lines = append(lines, fmt.Sprintf("# file %d", i), "")
							if variant == "urls" && i != 0 {
								// an ordinary directive in every included file: the directives of a completed inclusion leave
								// their include tracer behind, which an error met in a later sibling inclusion must not pick up
								lines = append(lines, fmt.Sprintf("URL /u%d", i))
							}
							for k := 0; k <= len(graph[i]); k++ {
								if i == ff && k == pos {
									lines = append(lines, "# fault follows")
									faultLine = len(lines) + 1
									for fi, fl := range strings.Split(fk.Line, "\n") {
										switch {
										case variant == "deep":
											lines = append(lines, strings.Repeat(" ", 230)+fl)
										case variant == "long" && fi == 0 && !strings.Contains(fl, "(") && fk.Name != "scan-error":
											lines = append(lines, "  "+fl+" # "+strings.Repeat("long comment ", 20))
										default:
											lines = append(lines, "  "+fl)
										}
									}
								}
								if k < len(graph[i]) {
									for q := 0; q < k+i; q++ {
										lines = append(lines, "# pad")
									}
									lines = append(lines, "INCLUDE "+incName(i, graph[i][k]))
									incLine[i] = append(incLine[i], len(lines))
								}
							}
							txt := strings.Join(lines, "\n") + "\n"
							pr.Files[name(i)] = strings.ReplaceAll(txt, "\n", eol)
						}
						// reference expansion: occurrences of the fault in DFS order
						var occs []occ
						var dfs func(i int, chain []string)
						dfs = func(i int, chain []string) {
							for k := 0; k <= len(graph[i]); k++ {
								if i == ff && k == pos {
									occs = append(occs, occ{append([]string{}, chain...)})
								}
								if k < len(graph[i]) {
									dfs(graph[i][k], append(append([]string{}, chain...), fmt.Sprintf("%s:%d", name(i), incLine[i][k])))
								}
							}
						}
						dfs(0, nil)
						c07GraphCase(w, pr, dir, fk.Name, fk.Msg, fk.SecondOcc, fk.Col, name(ff), faultLine, occs)
						w.End()
					}
					_ = fi
				}
			}
		}
	}
}

func c07GraphCase(w *run.W, pr impl.Project, dir, fname, msg string, second bool, colOff int, ffile string, fline int, occs []occ) {
	w.Count("cases", 1)
	want := 0
	if second {
		want = 1
	}
	b := pr.Build(dir)
	if b.Panic != nil {
		w.Violation("C07", b.Panic.Key(), "build panics: "+b.Panic.Value+"\n"+showProject(pr), map[string]any{"project": pr})
		return
	}
	if len(occs) <= want {
		// the fault is not reached (file not included) or not duplicated: nothing to locate
		w.Count("fault_not_reached", 1)
		if b.Err != nil && len(occs) == 0 {
			// an unreached file must not be reported
			if b.Err.File == ffile && ffile != "root.jst" {
				w.Violation("C07", "error-in-unreached-file", fmt.Sprintf("error %q located in %s which is never included\n%s", b.Err.Msg, ffile, showProject(pr)), map[string]any{"project": pr})
			}
		}
		return
	}
	if b.Err == nil {
		w.Violation("C07", "fault-accepted:"+fname, "project with a reachable fault is accepted\n"+showProject(pr), map[string]any{"project": pr})
		return
	}
	w.Nontrivial(showProject(pr))
	if !strings.Contains(b.Err.Msg, msg) {
		w.Violation("C07", "other-error:"+fname, fmt.Sprintf("expected the injected %s (%q), got %q at %s:%d\n%s", fname, msg, b.Err.Msg, b.Err.File, b.Err.Line, showProject(pr)), map[string]any{"project": pr})
		return
	}
	eofFault := strings.Contains(fname, "end-of-file")
	if eofFault {
		fline = int(b.Err.Line) // reported at the end of the file (see the end-of-input finding); only the file and the trace are judged
	}
	if b.Err.File != ffile || int(b.Err.Line) != fline {
		w.Violation("C07", "fault-location:"+fname, fmt.Sprintf("error %q located at %s:%d, the fault is at %s:%d\n%s", b.Err.Msg, b.Err.File, b.Err.Line, ffile, fline, showProject(pr)), map[string]any{"project": pr})
		return
	}
	var trace []string
	ch := occs[want].chain
	if len(ch) > 0 {
		trace = append(trace, fmt.Sprintf("%s:%d", ffile, fline))
		for i := len(ch) - 1; i >= 0; i-- {
			trace = append(trace, ch[i])
		}
	}
	var earlier [][]string
	for j := 0; j < want; j++ {
		et := []string{fmt.Sprintf("%s:%d", ffile, fline)}
		for i := len(occs[j].chain) - 1; i >= 0; i-- {
			et = append(et, occs[j].chain[i])
		}
		earlier = append(earlier, et)
	}
	c07Generic(w, "include-graphs/"+fname, pr, b.Err, trace, true, earlier...)
	if w.Shard == 3 {
		w.Sample(map[string]any{"files": pr.Files, "error": b.Err.Full})
	}
}

// ---- rejected members of the C03 fault family (single file, macro and include placements) under three line endings

type c07FaultParams struct {
	Budget int `json:"budget"`
}

func workC07Faults(w *run.W) {
	var p c07FaultParams
	json.Unmarshal(w.Params, &p)
	dir := workerDir(w)
	defer os.RemoveAll(dir)
	pal := model.DefaultPalette()
	idx := int64(-1)
	model.EnumDocs(pal, p.Budget, 0, func(d *model.Doc) {
		idx++
		if !w.Mine(idx) || !w.Begin(fmt.Sprintf("doc%d", idx)) {
			return
		}
		defer w.End()
		l0 := canonGlobal.Layout()
		l0.Only = map[string]bool{}
		l0.Reset()
		base := d.ToTree(&l0)
		for _, fc := range faults(base) {
			for _, pl := range []int{-1, 0, 2, 3} {
				tree := fc.Tree
				if pl >= 0 {
					if strings.HasPrefix(fc.Class, "jsight-") {
						continue
					}
					ti := topAncestor(tree)
					if ti <= 0 || tree.Nodes[ti].Kw == "MACRO" || tree.Nodes[ti].Kw == "TAG" {
						continue
					}
					if pl == 3 {
						// the MACRO that holds the fault is defined in an included file, the PASTE stays in the root
						tree = applyMove(tree, move{I: ti, J: ti, Kind: 0}, 9)
						tree = applyMove(tree, move{I: 1, J: 1, Kind: 2}, 8)
					} else {
						tree = applyMove(tree, move{I: ti, J: ti, Kind: pl}, 9)
					}
				}
				for _, g := range []Global{canonGlobal, {"\r\n", "\t", true}, {"\r", "    ", false}} {
					l := g.Layout()
					l.Only = map[string]bool{}
					l.Reset()
					r := dt.Render(tree, &l)
					pr := project(r)
					b := pr.Build(dir)
					w.Count("cases", 1)
					if b.Err == nil || b.Panic != nil {
						continue // C03 owns the verdict
					}
					w.Nontrivial(showProject(pr))
					var trace []string
					check := false
					switch {
					case len(pr.Files) == 1 || b.Err.File == "root.jst":
						check = true // the offending directive is in the root file: Error() must be the bare message
					default:
						// located inside the included piece: exactly one INCLUDE, at the top level of the root
						for _, x := range r.Lex["root.jst"] {
							if x.Type == "K" && x.Text == "INCLUDE" {
								il, _, _ := ref.Locate(pr.Files["root.jst"], x.Begin)
								trace = []string{fmt.Sprintf("%s:%d", b.Err.File, b.Err.Line), fmt.Sprintf("root.jst:%d", il)}
								check = true
							}
						}
					}
					c07Generic(w, "faults/"+fc.Class, pr, b.Err, trace, check)
				}
			}
		}
	})
}

// ---- rejected directive-instance sequences (scan-time, context and rule errors of every kind), three line endings
type c07SeqParams struct {
	Len int `json:"len"`
}

func workC07Seq(w *run.W) {
	var p c07SeqParams
	json.Unmarshal(w.Params, &p)
	dir := workerDir(w)
	defer os.RemoveAll(dir)
	n := len(c01Instances)
	var idx int64
	for L := 1; L <= p.Len; L++ {
		total := 1
		for i := 0; i < L; i++ {
			total *= n
		}
		for c := 0; c < total; c++ {
			for ei, eol := range []string{"\n", "\r\n", "\r"} {
				idx++
				if !w.Mine(idx) || !w.Begin(fmt.Sprintf("seq/%d/%d/%d", L, c, ei)) {
					continue
				}
				var parts []string
				x := c
				for i := 0; i < L; i++ {
					parts = append([]string{c01Instances[x%n]}, parts...)
					x /= n
				}
				in := strings.ReplaceAll("JSIGHT 0.3\n"+strings.Join(parts, "\n")+"\n", "\n", eol)
				pr := impl.Single(in)
				b := pr.Build(dir)
				w.Count("cases", 1)
				if b.Err != nil && b.Panic == nil {
					w.Nontrivial(in)
					c07Generic(w, "sequences", pr, b.Err, nil, true)
				}
				w.End()
			}
		}
	}
}

// workC07Cuts: every position of the compact documents damaged by one special byte (or the text cut there): whatever
// error results must be truthfully located, also when it sits on a line terminator.
func workC07Cuts(w *run.W) {
	dir := workerDir(w)
	defer os.RemoveAll(dir)
	var idx int64
	for di, doc := range c01InjectDocs {
		for ei, eol := range []string{"\n", "\r\n", "\r"} {
			text := strings.ReplaceAll(doc, "\n", eol)
			for i := 0; i < len(text); i++ {
				idx++
				if !w.Mine(idx) || !w.Begin(fmt.Sprintf("cuts/doc%d/eol%d/pos%d", di, ei, i)) {
					continue
				}
				var variants []string
				if eol == "\r\n" && (text[i] == '\r' || text[i] == '\n') {
					// damaging one half of a CRLF pair leaves mixed line endings, which are not judged
					w.End()
					continue
				}
				for _, b := range []byte("\n\"()#/\xff ") {
					if b == '\n' {
						if eol == "\r\n" {
							continue // a lone LF in a CRLF file: mixed line endings are not judged
						}
						b = eol[0]
					}
					if text[i] == b {
						continue
					}
					x := []byte(text)
					x[i] = b
					variants = append(variants, string(x))
				}
				variants = append(variants, text[:i])
				for _, v := range variants {
					for _, included := range []bool{false, true} {
						pr := impl.Single(v)
						var trace []string
						if included {
							if !strings.HasPrefix(v, "JSIGHT 0.3"+eol) {
								continue
							}
							body := v[len("JSIGHT 0.3"+eol):]
							pr = impl.Project{Root: "root.jst", Files: map[string]string{"root.jst": "JSIGHT 0.3" + eol + "INCLUDE piece.jst" + eol, "piece.jst": body}}
						}
						b := pr.Build(dir)
						w.Count("cases", 1)
						if b.Err == nil || b.Panic != nil {
							continue
						}
						w.Nontrivial(showProject(pr))
						check := false
						if included && b.Err.File == "piece.jst" {
							trace = []string{fmt.Sprintf("piece.jst:%d", b.Err.Line), "root.jst:2"}
							check = int(b.Err.Index) < len(pr.Files["piece.jst"])
						} else if !included {
							check = true
						}
						c07Generic(w, "cuts", pr, b.Err, trace, check)
					}
				}
				w.End()
			}
		}
	}
}

// workC07Index: "index file" layouts — the root includes k group files back to back, each group file holds nothing but the
// INCLUDE of one leaf; the fault is in one of the leaves (every leaf x fault kinds x 1-3 leading lines in the groups).
func workC07Index(w *run.W) {
	dir := workerDir(w)
	defer os.RemoveAll(dir)
	faults := []struct{ name, text, msg string }{
		{"rule", "TYPE @dup any\nTYPE @dup any\n", "has already been declared"},
		{"undefined-type", "GET /x%d\n  200 @nope\n", "not found"},
		{"context", "GET /y%d\n  Title \"t\"\n", "incorrect context"},
		{"scan", "GET /z%d\n  200 any\n  %%\n", ""},
	}
	var idx int64
	for k := 2; k <= 3; k++ {
		for bad := 0; bad < k; bad++ {
			for fi, f := range faults {
				for lead := 0; lead <= 2; lead++ {
					idx++
					if !w.Mine(idx) || !w.Begin(fmt.Sprintf("index/%d/%d/%s/%d", k, bad, f.name, lead)) {
						continue
					}
					pr := impl.Project{Root: "main.jst", Files: map[string]string{}}
					var root strings.Builder
					root.WriteString("JSIGHT 0.3\n\n")
					rootLine := map[int]int{}
					for g := 0; g < k; g++ {
						rootLine[g] = 3 + g
						fmt.Fprintf(&root, "INCLUDE group_%d.jst\n", g)
						pr.Files[fmt.Sprintf("group_%d.jst", g)] = strings.Repeat("# lead\n", lead) + fmt.Sprintf("INCLUDE leaf_%d.jst\n", g)
						body := fmt.Sprintf("GET /ok%d\n  200 any\n", g)
						if g == bad {
							body = f.text
							if strings.Contains(body, "%d") {
								body = fmt.Sprintf(body, g)
							}
							body = strings.ReplaceAll(body, "%%", "%")
						}
						pr.Files[fmt.Sprintf("leaf_%d.jst", g)] = body
					}
					pr.Files["main.jst"] = root.String()
					b := pr.Build(dir)
					w.Count("cases", 1)
					if b.Err == nil || b.Panic != nil {
						w.Violation("C07", "harness:index-layout-accepted", "index layout with a fault in a leaf is accepted or panics\n"+showProject(pr), nil)
						w.End()
						continue
					}
					w.Nontrivial(showProject(pr))
					_ = fi
					var trace []string
					check := false
					if b.Err.File == fmt.Sprintf("leaf_%d.jst", bad) {
						trace = []string{fmt.Sprintf("%s:%d", b.Err.File, b.Err.Line), fmt.Sprintf("group_%d.jst:%d", bad, lead+1), fmt.Sprintf("main.jst:%d", rootLine[bad])}
						check = true
					}
					c07Generic(w, "index/"+f.name, pr, b.Err, trace, check)
					w.End()
				}
			}
		}
	}
}

// workC07Types: the rejected members of the type-graph family (errors found in one type while another is checked).
func workC07Types(w *run.W) {
	dir := workerDir(w)
	defer os.RemoveAll(dir)
	var idx int64
	typeGraphDocs(1, func(name, text string) {
		idx++
		if !w.Mine(idx) || !w.Begin(name) {
			return
		}
		defer w.End()
		pr := impl.Single(text)
		b := pr.Build(dir)
		w.Count("cases", 1)
		if b.Err == nil || b.Panic != nil {
			return
		}
		w.Nontrivial(text)
		c07Generic(w, "types", pr, b.Err, nil, true)
	})
}

func runC07(c *chk.Ctx) {
	fam := map[string]any{}
	steps := []struct {
		kind string
		p    any
	}{
		{"c07graphs", c07GraphParams{Files: chk.Pick(c, 4, 5)}},
		{"c07faults", c07FaultParams{Budget: chk.Pick(c, 2, 3)}},
		{"c07seq", c07SeqParams{Len: chk.Pick(c, 2, 3)}},
		{"c07cuts", map[string]any{}},
		{"c07types", map[string]any{}},
		{"c07index", map[string]any{}},
	}
	for _, s := range steps {
		b0 := c.Counts()["cases"]
		r := c.Pool.Run(s.kind, s.p)
		c.Merge(r, "cases")
		fam[s.kind] = map[string]any{"params": s.p, "cases": c.Counts()["cases"] - b0}
	}
	c.Cov["families"] = fam
	c.Cov["rule"] = "rejected members of four exhaustively enumerated families: (cuts) two compact documents covering every kind of region, in LF / CRLF / CR form, alone and as an INCLUDEd file, with one byte at every position replaced by each of {line feed, quote, parenthesis, '#', slash, 0xFF, blank} or the text cut there — errors located on line terminators, inside quotes, at cut keywords; (graphs) all acyclic include graphs on k files with <= 2 ordered includes per file (same file twice, diamonds, nesting) x fault kind {scan, context, rule, missing include, duplicate by double inclusion} x file x position x {LF, CRLF, CR}; (faults) every C03 single-fault document in place / in a pasted MACRO / in an INCLUDEd file x three line endings; (sequences) all directive-instance sequences up to the bound x three line endings. Oracle: file of the project, index inside it, line/column recomputed independently from the index, quote = that line, Error() = message + exactly the chain of INCLUDE lines, innermost first"
	c.Assumptions = append(c.Assumptions, "files use one line-ending convention each (mixed endings are not judged)")
}
