package checks

import (
	"encoding/json"
	"fmt"
	"os"
	"sort"
	"strings"

	"verif/internal/chk"
	"verif/internal/impl"
	"verif/internal/oj"
	"verif/internal/ref"
	"verif/internal/run"
)

// C08 — layout rewrites on corpus documents: every rewrite at every legal site (singly; pairs in the thorough tier),
// every global rewrite and their product; accepted -> same catalog, rule-rejected -> same class, error moves with the text.

func init() {
	chk.Register(&chk.Check{ID: "C08", Level: "exploration", Run: runC08})
	chk.RegisterWorker("c08", workC08)
}

type edit struct {
	Off int
	Del int
	Ins string
}

type rewrite struct {
	Name     string
	Edits    []edit
	Reindent bool // white space inside multi-line notes may change
	MixedEOL bool // the rewritten document mixes line-ending conventions: error lines are not compared
}

func applyEdits(s string, ee []edit) string {
	ee = append([]edit{}, ee...)
	sort.SliceStable(ee, func(i, j int) bool { return ee[i].Off > ee[j].Off })
	for _, e := range ee {
		s = s[:e.Off] + e.Ins + s[e.Off+e.Del:]
	}
	return s
}

// mapIndex maps an index of the original text to the rewritten text.
func mapIndex(i int, ee []edit) int {
	d := 0
	for _, e := range ee {
		if e.Off <= i {
			d += len(e.Ins) - e.Del
		}
	}
	return i + d
}

func overlap(a, b []edit) bool {
	for _, x := range a {
		for _, y := range b {
			if x.Off <= y.Off+y.Del && y.Off <= x.Off+x.Del {
				return true
			}
		}
	}
	return false
}

type c08Dir struct {
	kw             impl.Lex
	kind           string
	params         []impl.Lex
	ann            *impl.Lex
	open           *impl.Lex
	body           *impl.Lex
	hasPath        bool
	headerEnd      int // index of the last byte of the keyword line's content
	closeAfter     []impl.Lex
	isDescription  bool
	prevIsFreeText bool
}

func lineStart(s string, i int) int {
	for i > 0 && s[i-1] != '\n' {
		i--
	}
	return i
}
func lineEnd(s string, i int) int {
	for i < len(s) && s[i] != '\n' {
		i++
	}
	return i
}

// siteRewrites computes every single-site rewrite of an LF document whose scan completes.
func siteRewrites(text string, lex []impl.Lex) []rewrite {
	var out []rewrite
	// group lexemes into directives
	var dirs []*c08Dir
	var items []any // *c08Dir or impl.Lex (close)
	for _, l := range lex {
		switch l.Type {
		case "K":
			d := &c08Dir{kw: l, kind: text[l.Begin : l.End+1]}
			dirs = append(dirs, d)
			items = append(items, d)
		case ")":
			items = append(items, l)
		default:
			if len(dirs) == 0 {
				return nil
			}
			d := dirs[len(dirs)-1]
			l := l
			switch l.Type {
			case "P":
				d.params = append(d.params, l)
			case "A":
				d.ann = &l
			case "(":
				d.open = &l
			default:
				d.body = &l
			}
		}
	}
	// free text tracking
	for i, d := range dirs {
		d.isDescription = d.kind == "Description"
		if i > 0 && dirs[i-1].isDescription && dirs[i-1].body != nil {
			b := dirs[i-1].body
			tt := strings.TrimSpace(text[b.Begin : b.End+1])
			if !(strings.HasPrefix(tt, "(") && strings.HasSuffix(tt, ")")) {
				d.prevIsFreeText = true
			}
		}
	}
	for _, d := range dirs {
		ls := lineStart(text, d.kw.Begin)
		ind := text[ls:d.kw.Begin]
		if strings.TrimLeft(ind, " \t") != "" {
			continue // keyword not first on its line: not a site we understand
		}
		// c. separators before the directive
		out = append(out, rewrite{Name: "blank-line-before", Edits: []edit{{ls, 0, "\n"}}})
		if !d.prevIsFreeText {
			out = append(out, rewrite{Name: "hash-comment-before", Edits: []edit{{ls, 0, ind + "# c\n"}}})
			out = append(out, rewrite{Name: "block-comment-before", Edits: []edit{{ls, 0, ind + "### block\n  comment ###\n"}}})
		}
		// a'. line-ending rewrites at one site: the line break that ends the keyword line, and an inserted comment line that
		// ends with another convention than the rest of the document (compositions of the listed rewrites at one site)
		if le0 := lineEnd(text, d.kw.Begin); le0 < len(text) && !strings.Contains(text[d.kw.Begin:le0], "/*") && !strings.Contains(text[d.kw.Begin:le0], "###") && !d.isDescription {
			out = append(out, rewrite{Name: "eol-cr-after-keyword-line", Edits: []edit{{le0, 1, "\r"}}, MixedEOL: true},
				rewrite{Name: "eol-crlf-after-keyword-line", Edits: []edit{{le0, 1, "\r\n"}}, MixedEOL: true})
		}
		if !d.prevIsFreeText {
			out = append(out, rewrite{Name: "hash-comment-before-ending-in-cr", Edits: []edit{{ls, 0, ind + "# c\r"}}, MixedEOL: true},
				rewrite{Name: "hash-comment-before-ending-in-crlf", Edits: []edit{{ls, 0, ind + "# c\r\n"}}, MixedEOL: true})
		}
		// d. trailing blanks on the keyword line
		le := lineEnd(text, d.kw.Begin)
		kwLine := text[d.kw.Begin:le]
		if !strings.Contains(kwLine, "/*") && !(d.isDescription) {
			out = append(out, rewrite{Name: "trailing-blanks", Edits: []edit{{le, 0, " \t "}}})
		}
		// e. quote bare parameters
		for _, p := range d.params {
			v := text[p.Begin : p.End+1]
			if !strings.HasPrefix(v, `"`) && !strings.ContainsAny(v, "\n") {
				q := `"` + strings.ReplaceAll(strings.ReplaceAll(v, `\`, `\\`), `"`, `\"`) + `"`
				out = append(out, rewrite{Name: "quote-parameter", Edits: []edit{{p.Begin, len(v), q}}})
			}
		}
		// f. annotation style
		if d.ann != nil && d.ann.Begin >= 2 {
			a := text[d.ann.Begin : d.ann.End+1]
			style := text[d.ann.Begin-2 : d.ann.Begin]
			if style == "//" && !strings.Contains(a, "*/") && !strings.Contains(a, "#") && d.ann.End+1 <= len(text) {
				rest := text[d.ann.End+1 : lineEnd(text, d.ann.End)]
				if strings.TrimSpace(rest) == "" {
					out = append(out, rewrite{Name: "annotation-slashes-to-block", Edits: []edit{{d.ann.Begin - 2, len(a) + 2, "/*" + a + " */"}}})
				}
			}
			if style == "/*" && !strings.ContainsAny(a, "\n#") && d.ann.End+3 <= len(text) && text[d.ann.End+1:d.ann.End+3] == "*/" {
				rest := text[d.ann.End+3 : lineEnd(text, d.ann.End)]
				if strings.TrimSpace(rest) == "" {
					out = append(out, rewrite{Name: "annotation-block-to-slashes", Edits: []edit{{d.ann.Begin - 2, len(a) + 4, "//" + a}}})
				}
			}
		}
	}
	// g. explicit <-> implicit context, validated by the reference automaton
	var syms []ref.Sym
	symDir := map[int]*c08Dir{}
	for _, it := range items {
		switch x := it.(type) {
		case *c08Dir:
			k := x.kind
			if len(k) == 3 && k[0] >= '1' && k[0] <= '5' {
				k = "CODE"
			}
			if k == "INCLUDE" {
				return out // include changes the tree in ways the text does not show
			}
			symDir[len(syms)] = x
			syms = append(syms, ref.Sym{Kind: k, Explicit: x.open != nil, HasPath: ref.IsMethodKind(k) && len(x.params) > 0})
		case impl.Lex:
			syms = append(syms, ref.Sym{Close: true})
		}
	}
	parentsOf := func(ss []ref.Sym) ([]int, bool) {
		a := &ref.Automaton{}
		for _, s := range ss {
			if a.Step(s) != ref.OK {
				return nil, false
			}
		}
		if a.End() != ref.OK {
			return nil, false
		}
		return a.Parents, true
	}
	base, ok := parentsOf(syms)
	if !ok {
		return out
	}
	// directive index per symbol position
	dirIdx := map[int]int{}
	n := 0
	for i, s := range syms {
		if !s.Close {
			dirIdx[i] = n
			n++
		}
	}
	isDesc := func(i int) bool { return symDir[i].isDescription }
	for i, s := range syms {
		if s.Close || s.Explicit || isDesc(i) {
			continue
		}
		d := symDir[i]
		// implicit -> explicit: '(' after the keyword line (before the body), ')' before the next non-descendant directive
		me := dirIdx[i]
		endSym := len(syms)
		for j := i + 1; j < len(syms); j++ {
			if syms[j].Close {
				// a ')' that closes an ancestor ends the subtree
				depth := 0
				_ = depth
				continue
			}
			dj := dirIdx[j]
			isDescendant := false
			for p := base[dj]; p >= 0; p = base[p] {
				if p == me {
					isDescendant = true
					break
				}
			}
			if !isDescendant {
				endSym = j
				break
			}
		}
		// the ')' symbols directly before endSym that close ancestors must stay after our ')': place ours before them
		k := endSym
		for k-1 > i && syms[k-1].Close {
			// does this ')' close a context opened inside our subtree? then it stays inside
			openInside := 0
			for q := i + 1; q < k-1; q++ {
				if syms[q].Close {
					openInside--
				} else if syms[q].Explicit {
					openInside++
				}
			}
			if openInside > 0 {
				break
			}
			k--
		}
		hasPaste := strings.Contains(text, "###") // block comments may share a line with parentheses: sites are not computed there
		for p := base[dirIdx[i]]; p >= 0; p = base[p] {
			// inside a MACRO body the context left open by the last directive is used by what follows the PASTE
			for q, dq := range dirIdx {
				if dq == p && syms[q].Kind == "MACRO" {
					hasPaste = true
				}
			}
		}
		for q := i + 1; q < k; q++ {
			if syms[q].Kind == "PASTE" {
				hasPaste = true // the pasted directives are resolved at expansion time and may rely on the implicit context closing
			}
		}
		if hasPaste {
			continue
		}
		ns := append([]ref.Sym{}, syms[:i]...)
		s2 := s
		s2.Explicit = true
		ns = append(ns, s2)
		ns = append(ns, syms[i+1:k]...)
		ns = append(ns, ref.Sym{Close: true})
		ns = append(ns, syms[k:]...)
		np, ok := parentsOf(ns)
		if !ok || fmt.Sprint(np) != fmt.Sprint(base) {
			continue
		}
		// text positions
		if kl := text[d.kw.Begin:lineEnd(text, d.kw.Begin)]; strings.Contains(kl, "###") {
			continue // a block comment opened on the keyword line: the header does not end with this line
		}
		le := lineEnd(text, d.kw.Begin)
		if d.ann != nil && d.ann.End > le {
			le = lineEnd(text, d.ann.End)
		}
		ind := text[lineStart(text, d.kw.Begin):d.kw.Begin]
		var closeOff int
		if k < len(syms) {
			// before the line of item k
			var pos int
			if syms[k].Close {
				// find the lexeme of that ')'
				cnt := 0
				for q := 0; q <= k; q++ {
					if syms[q].Close {
						cnt++
					}
				}
				c := 0
				for _, l := range lex {
					if l.Type == ")" {
						c++
						if c == cnt {
							pos = l.Begin
						}
					}
				}
			} else {
				pos = symDir[k].kw.Begin
			}
			closeOff = lineStart(text, pos)
		} else {
			closeOff = len(text)
		}
		if le >= len(text) || closeOff <= le {
			continue
		}
		ins2 := ind + ")\n"
		if closeOff == len(text) && !strings.HasSuffix(text, "\n") {
			ins2 = "\n" + ind + ")"
		}
		// free text directly before the ')' would swallow nothing: ')' at line start ends a Description text
		if closeOff == le+1 {
			out = append(out, rewrite{Name: "implicit-to-explicit-context", Edits: []edit{{le + 1, 0, ind + "(\n" + ins2}}})
		} else {
			out = append(out, rewrite{Name: "implicit-to-explicit-context", Edits: []edit{{le + 1, 0, ind + "(\n"}, {closeOff, 0, ins2}}})
		}
	}
	return out
}

func globalRewrites(text string) []rewrite {
	var out []rewrite
	nl := func(to string) []edit {
		var ee []edit
		for i := 0; i < len(text); i++ {
			if text[i] == '\n' {
				ee = append(ee, edit{i, 1, to})
			}
		}
		return ee
	}
	out = append(out, rewrite{Name: "lf-to-crlf", Edits: nl("\r\n")}, rewrite{Name: "lf-to-cr", Edits: nl("\r")})
	reindent := func(add string) []edit {
		var ee []edit
		for i := 0; i < len(text); {
			e := lineEnd(text, i)
			if e > i { // every non-empty line, white-space-only lines included: the re-indentation is uniform
				ee = append(ee, edit{i, 0, add})
			}
			i = e + 1
		}
		return ee
	}
	out = append(out, rewrite{Name: "indent-plus-2", Edits: reindent("  "), Reindent: true}, rewrite{Name: "indent-plus-tab", Edits: reindent("\t"), Reindent: true})
	var tabs []edit
	for i := 0; i < len(text); {
		e := lineEnd(text, i)
		for j := i; j < e && text[j] == ' '; j++ {
			tabs = append(tabs, edit{j, 1, "\t"})
		}
		i = e + 1
	}
	// (replacing leading spaces by tabs is not applied: inside free-text descriptions the indentation beyond the
	// common prefix is content)
	_ = tabs
	return out
}

func normJSON(v any, reindent bool, key string) any {
	switch x := v.(type) {
	case *oj.O:
		o := oj.NewO(true)
		for _, k := range x.Keys {
			o.Set(k, normJSON(x.Vals[k], reindent, k))
		}
		return o
	case []any:
		out := make([]any, len(x))
		for i := range x {
			out[i] = normJSON(x[i], reindent, key)
		}
		return out
	case string:
		s := strings.ReplaceAll(strings.ReplaceAll(x, "\r\n", "\n"), "\r", "\n")
		if reindent && (key == "note" || key == "annotation") {
			s = strings.Join(strings.Fields(s), " ")
		}
		return s
	}
	return v
}

func lexicalError(msg string) bool {
	lm := strings.ToLower(msg)
	return strings.HasPrefix(lm, "invalid character") || strings.HasPrefix(lm, "invalid end of file") || strings.Contains(lm, "unexpected end of file") || strings.Contains(msg, "ERROR (code") ||
		strings.Contains(msg, "byte zero") || strings.Contains(msg, "apart from the opening parenthesis")
}

type c08Params struct {
	Pairs    bool `json:"pairs"`
	MaxBytes int  `json:"max_bytes"`
}

func workC08(w *run.W) {
	var p c08Params
	json.Unmarshal(w.Params, &p)
	dir := workerDir(w)
	defer os.RemoveAll(dir)
	var ridx int64
	for fi, f := range corpusFiles() {
		raw, _ := os.ReadFile(f)
		text := string(raw)
		if strings.Contains(text, "\r") || hasInclude(text) || len(text) > p.MaxBytes || strings.Contains(text, "\x00") {
			if w.Shard == 0 {
				w.Count("files_skipped", 1)
			}
			continue
		}
		if !w.Begin("file:" + f) {
			continue
		}
		orig := impl.BuildMem("root.jst", text)
		if orig.Panic != nil {
			w.End()
			continue
		}
		var origJSON any
		if orig.Err == nil {
			j := impl.ToJson(&orig.J)
			if j.Err != "" || j.Panic != nil {
				w.End()
				continue
			}
			origJSON, _ = oj.ParseOrdered([]byte(j.Out))
			if w.Shard == 0 {
				w.Count("files_accepted", 1)
			}
		} else {
			if lexicalError(orig.Err.Msg) {
				if w.Shard == 0 {
					w.Count("files_rejected_lexically", 1)
				}
				w.End()
				continue
			}
			if w.Shard == 0 {
				w.Count("files_rejected_by_rule", 1)
			}
		}
		sc := impl.Scan(text, 0)
		var sites []rewrite
		if sc.Err == nil && sc.Panic == nil {
			sites = siteRewrites(text, sc.Lex)
		}
		globals := globalRewrites(text)
		try := func(name string, ee []edit, reindent bool) {
			mixed := strings.Contains(name, "eol-") || strings.Contains(name, "ending-in-")
			ridx++
			if !w.Mine(ridx) {
				return
			}
			nt := applyEdits(text, ee)
			w.Touch()
			w.Count("rewrites", 1)
			w.Count("rw_"+strings.SplitN(name, "+", 2)[0], 1)
			w.Nontrivial(nt)
			b := impl.BuildMem("root.jst", nt)
			detail := map[string]any{"file": f, "rewrite": name, "rewritten": trunc(nt, 3000)}
			if b.Panic != nil {
				w.Violation("C08", b.Panic.Key(), fmt.Sprintf("%s rewritten by %s panics: %s", f, name, b.Panic.Value), detail)
				return
			}
			if orig.Err == nil {
				if b.Err != nil {
					w.Violation("C08", "accepted->rejected:"+strings.SplitN(name, "+", 2)[0], fmt.Sprintf("%s is accepted, but rejected after rewrite %s: %s (line %d)\n%s", f, name, b.Err.Msg, b.Err.Line, trunc(nt, 1200)), detail)
					return
				}
				j := impl.ToJson(&b.J)
				nj, err := oj.ParseOrdered([]byte(j.Out))
				if err != nil {
					w.Violation("C08", "tojson", "ToJson fails after rewrite "+name+": "+j.String(), detail)
					return
				}
				if d := oj.Diff(normJSON(origJSON, reindent, ""), normJSON(nj, reindent, ""), ""); d != "" {
					w.Violation("C08", "catalog-changed:"+strings.SplitN(name, "+", 2)[0], fmt.Sprintf("%s: catalog changes under rewrite %s at %s\n%s", f, name, d, trunc(nt, 1200)), detail)
				}
				return
			}
			// rule-rejected original
			if b.Err == nil {
				w.Violation("C08", "rejected->accepted:"+strings.SplitN(name, "+", 2)[0], fmt.Sprintf("%s is rejected (%s), but accepted after rewrite %s\n%s", f, orig.Err.Msg, name, trunc(nt, 1200)), detail)
				return
			}
			if errClass(b.Err.Msg) != errClass(orig.Err.Msg) {
				w.Violation("C08", "error-class-changed:"+strings.SplitN(name, "+", 2)[0], fmt.Sprintf("%s: error %q becomes %q under rewrite %s\n%s", f, orig.Err.Msg, b.Err.Msg, name, trunc(nt, 1200)), detail)
				return
			}
			if int(orig.Err.Index) < len(text) && !mixed {
				wl, _, _ := ref.Locate(strings.ReplaceAll(strings.ReplaceAll(nt, "\r\n", "\n"), "\r", "\n"), 0)
				_ = wl
				ni := mapIndex(int(orig.Err.Index), ee)
				wantLine, _, _ := ref.Locate(nt, ni)
				if int(b.Err.Line) != wantLine {
					w.Violation("C08", "error-did-not-move-with-text:"+strings.SplitN(name, "+", 2)[0], fmt.Sprintf("%s: error %q was on line %d; after rewrite %s the same text is on line %d, error reported on line %d\n%s", f, orig.Err.Msg, orig.Err.Line, name, wantLine, b.Err.Line, trunc(nt, 1200)), detail)
				}
			}
		}
		for _, g := range globals {
			try(g.Name, g.Edits, g.Reindent)
		}
		if orig.Err != nil {
			// wrapping a directive of a malformed document in '( )' changes what follows an incomplete directive:
			// only defined for well-formed documents
			var keep []rewrite
			for _, s := range sites {
				if s.Name != "implicit-to-explicit-context" {
					keep = append(keep, s)
				}
			}
			sites = keep
		}
		for _, s := range sites {
			try(s.Name, s.Edits, false)
		}
		// each rewrite kind at all of its sites at once
		byName := map[string][]edit{}
		for _, s := range sites {
			if s.Name == "implicit-to-explicit-context" {
				continue // nested wraps interact; covered singly and in pairs
			}
			if !overlap(byName[s.Name], s.Edits) {
				byName[s.Name] = append(byName[s.Name], s.Edits...)
			}
		}
		for n, ee := range byName {
			try(n+"+all-sites", ee, false)
		}
		// products of global rewrites: line ending x re-indentation
		for _, a := range globals[:2] {
			for _, b := range globals[2:] {
				// apply b first (it does not touch newlines), then a on the result
				nt := applyEdits(text, b.Edits)
				var ee []edit
				to := "\r\n"
				if a.Name == "lf-to-cr" {
					to = "\r"
				}
				for i := 0; i < len(nt); i++ {
					if nt[i] == '\n' {
						ee = append(ee, edit{i, 1, to})
					}
				}
				// compose as edits on the original: emulate by building directly
				ridx++
				if !w.Mine(ridx) {
					continue
				}
				nt2 := applyEdits(nt, ee)
				w.Count("rewrites", 1)
				bb := impl.BuildMem("root.jst", nt2)
				if (bb.Err == nil) != (orig.Err == nil) || bb.Panic != nil {
					w.Violation("C08", "global-product-verdict", fmt.Sprintf("%s: verdict changes under %s+%s", f, a.Name, b.Name), map[string]any{"file": f, "rewritten": trunc(nt2, 2000)})
				} else if orig.Err == nil {
					j := impl.ToJson(&bb.J)
					nj, _ := oj.ParseOrdered([]byte(j.Out))
					if d := oj.Diff(normJSON(origJSON, true, ""), normJSON(nj, true, ""), ""); d != "" {
						w.Violation("C08", "catalog-changed:global-product", fmt.Sprintf("%s: catalog changes under %s+%s at %s", f, a.Name, b.Name, d), map[string]any{"file": f})
					}
				}
			}
		}
		if p.Pairs && len(sites) <= 120 {
			for i := 0; i < len(sites); i++ {
				for j := i + 1; j < len(sites); j++ {
					if overlap(sites[i].Edits, sites[j].Edits) {
						continue
					}
					if sites[i].Name == "implicit-to-explicit-context" && sites[j].Name == "implicit-to-explicit-context" {
						continue
					}
					try(sites[i].Name+"+"+sites[j].Name, append(append([]edit{}, sites[i].Edits...), sites[j].Edits...), false)
				}
			}
		}
		if fi%97 == 0 && len(sites) > 0 {
			w.Sample(map[string]any{"file": f, "rewrite": sites[0].Name, "rewritten_head": trunc(applyEdits(text, sites[0].Edits), 300)})
		}
		w.End()
	}
}

func runC08(c *chk.Ctx) {
	p := c08Params{Pairs: !c.Quick(), MaxBytes: chk.Pick(c, 20000, 200000)}
	r := c.Pool.Run("c08", p)
	c.Merge(r, "rewrites")
	kinds := map[string]int64{}
	for k, v := range c.Counts() {
		if strings.HasPrefix(k, "rw_") {
			kinds[strings.TrimPrefix(k, "rw_")] = v
		}
	}
	c.Cov["rewrites_by_kind"] = kinds
	c.Cov["params"] = p
	c.Cov["rule"] = "every INCLUDE-free LF corpus file (accepted, or rejected by a rule rather than lexically) x {LF->CRLF, LF->CR, +2 blanks / +tab on every line, leading spaces -> tabs, their products} x every single-site rewrite at every legal site computed from the scanner's lexemes of the original (blank line / # comment / ### block before a directive, trailing blanks, quoting a bare parameter, // <-> /* */ annotation, implicit -> explicit context validated by the reference automaton), each rewrite kind at all of its sites at once, and (thorough) all pairs of sites. Generated documents x layouts are covered by C02 (accepted) and C03 (rejected, error moves with the text). non-trivial = distinct rewritten text"
	c.Assumptions = append(c.Assumptions,
		"CR/CRLF inside string values are normalised before comparing; for re-indentation rewrites white-space runs inside note/annotation strings are normalised too (a comment spanning lines inside a body keeps its inner indentation by design)",
		"adding or removing the final newline is not one of the property's rewrites")
}
