package checks

import (
	"encoding/json"
	"fmt"
	"os"
	"strings"

	"verif/internal/chk"
	"verif/internal/dt"
	"verif/internal/impl"
	"verif/internal/model"
	"verif/internal/run"
)

// C12 — (i) explicit-state BFS of the real scanner at token level with a lexeme well-formedness oracle on every
// explored string; (ii) exactness of the lexeme stream against the renderer's position map.

func init() {
	chk.Register(&chk.Check{ID: "C12", Level: "model_checking", Run: runC12})
	chk.RegisterWorker("c12bfs", workC12BFS)
	chk.RegisterWorker("c12exact", workC12Exact)
}

// c12BaseTokens: number of fine-grained tokens (the C01 byte-continuation family explores states over these only).
var c12BaseTokens int

var c12Tokens = func() []string {
	t := []string{}
	for _, k := range []string{"JSIGHT", "INFO", "Title", "Version", "Description", "SERVER", "BaseUrl", "URL", "GET", "POST", "PUT",
		"PATCH", "DELETE", "Body", "Request", "Path", "Headers", "Query", "TYPE", "ENUM", "MACRO", "PASTE", "INCLUDE", "Protocol",
		"Method", "Params", "Result", "TAG", "Tags", "OperationId", "200"} {
		t = append(t, k)
	}
	t = append(t, " x", " /p", " @A", " [@A]", " any", " empty", " regex", " jsight", ` "q"`, ` "a\"b"`, ` "`,
		" ", "\t", "\n", "\r", "\r\n", " // a", " /* a */", " /*", "*/", " /", "# c", "### c ###", "###", "(", ")",
		"{}", `{"a": 1}`, "[1]", "/re/", "@A", "text", "12", "{", "[")
	c12BaseTokens = len(t)
	t = append(t,
		// whole-line tokens: multi-line shapes (a parenthesis after ')' or after a body, a 3-byte keyword line after free text,
		// a glued keyword after an annotated line) are reached at a small depth
		"GET /p\n", "URL /u\n", "GET /p // note\n", "Request\n", "200\n", "TYPE @A\n", "Description\n", "  some text\n", ")\n", "(\n", "{}\n", "200any", "GETx", "PUT\n", "404\n",
		// annotation ends written with more than one asterisk
		"*", " /* a **/\n", " /** a */\n")
	return t
}()

type c12Params struct {
	Depth     int `json:"depth"`
	MaxStates int `json:"max_states"`
}

// wellFormed checks the lexeme well-formedness oracle on a complete scan; returns key, what ("" = fine).
func c12WellFormed(in string, o *impl.ScanObs) (string, string) {
	n := len(in)
	if o.Panic != nil {
		return o.Panic.Key(), "scanner panics: " + o.Panic.Value
	}
	if o.Err != nil {
		if int(o.Err.Index) > n {
			return "error-index-outside-file", fmt.Sprintf("error %q at index %d, file has %d bytes", o.Err.Msg, o.Err.Index, n)
		}
	}
	prevEnd := -1
	state := 0 // 0 between directives; 1 after K/P; 2 after A; 3 after '('; 4 after body
	for i, l := range o.Lex {
		if l.Begin < 0 || l.End >= n || l.End < l.Begin-1 || (l.Begin >= n && l.End >= l.Begin) {
			return "lexeme-outside-file:" + l.Type, fmt.Sprintf("lexeme %d %s [%d:%d] does not lie inside the %d-byte file", i, l.Type, l.Begin, l.End, n)
		}
		if l.End == l.Begin-1 && l.Type != "A" && l.Type != "T" {
			return "empty-lexeme:" + l.Type, fmt.Sprintf("lexeme %d %s [%d:%d] is empty", i, l.Type, l.Begin, l.End)
		}
		if l.Begin <= prevEnd {
			return "lexemes-overlap-or-out-of-order", fmt.Sprintf("lexeme %d %s [%d:%d] starts before the end (%d) of the previous one", i, l.Type, l.Begin, l.End, prevEnd)
		}
		if l.End > prevEnd {
			prevEnd = l.End
		}
		bad := false
		switch l.Type {
		case "K":
			state = 1
		case "P":
			bad = state != 1
		case "A":
			bad = state != 1
			state = 2
		case "(":
			bad = state != 1 && state != 2
			state = 3
		case "S", "T", "E", "J":
			bad = state == 0 || state == 4
			state = 4
		case ")":
			state = 0
		default:
			bad = true
		}
		if bad {
			var seq []string
			for _, x := range o.Lex[:i+1] {
				seq = append(seq, x.Type)
			}
			return "lexeme-shape:" + l.Type, fmt.Sprintf("lexeme %d (%s) breaks the per-directive shape K P* A? (? body?: %s", i, l.Type, strings.Join(seq, " "))
		}
	}
	return "", ""
}

// c12State: canonical state after prefix p, by the NUL trick; opaque when the stop is not clean.
func c12State(p string) (key string, dead bool) {
	o := impl.Scan(p+"\x00", 0)
	if o.Panic != nil {
		return "", true
	}
	if o.Err != nil && int(o.Err.Index) < len(p) {
		return "", true
	}
	if o.Err != nil && int(o.Err.Index) == len(p) && strings.Contains(o.Err.Msg, "byte zero") {
		// product with the oracle's own state: the per-directive shape automaton over the lexemes emitted so far
		return o.State + "|shape=" + shapeState(o.Lex), false
	}
	return "opaque:" + p, false
}

// shapeState replays the well-formedness automaton of c12WellFormed over a lexeme stream and returns its state.
func shapeState(lex []impl.Lex) string {
	state := 0
	for _, l := range lex {
		switch l.Type {
		case "K":
			state = 1
		case "A":
			state = 2
		case "(":
			state = 3
		case "S", "T", "E", "J":
			state = 4
		case ")":
			state = 0
		}
	}
	return fmt.Sprint(state)
}

func workC12BFS(w *run.W) {
	var p c12Params
	json.Unmarshal(w.Params, &p)
	type st struct {
		witness string
		depth   int
	}
	k0, _ := c12State("")
	seen := map[string]bool{k0: true}
	states := []st{{"", 0}}
	maxDepth := 0
	for i := 0; i < len(states); i++ {
		s := states[i]
		if s.depth > maxDepth {
			maxDepth = s.depth
		}
		mine := w.Mine(int64(i))
		begun := false
		if mine {
			begun = w.Begin(fmt.Sprintf("state%d:%q", i, trunc(s.witness, 150)))
			if begun {
				w.Count("states", 1)
			}
		}
		for _, tok := range c12Tokens {
			in := s.witness + tok
			// successor (every worker computes the whole graph deterministically; only the oracle work is sharded)
			if s.depth < p.Depth {
				k, dead := c12State(in)
				if !dead && !seen[k] && (p.MaxStates == 0 || len(states) < p.MaxStates) {
					seen[k] = true
					states = append(states, st{in, s.depth + 1})
				}
			}
			if begun {
				o := impl.Scan(in, 10000)
				w.Count("transitions", 1)
				if o.Err != nil {
					w.Count("out_error", 1)
				} else {
					w.Count("out_lexemes", 1)
					w.Nontrivial(in)
				}
				if key, what := c12WellFormed(in, o); key != "" {
					w.Violation("C12", key, fmt.Sprintf("%s\ninput: %q", what, in), map[string]any{"input": in})
				}
			}
		}
		if begun {
			// every single byte after the state's witness (full 256-byte alphabet at depth 1 of every state)
			for b := 1; b < 256; b++ {
				in := s.witness + string([]byte{byte(b)})
				o := impl.Scan(in, 10000)
				w.Count("transitions", 1)
				w.Count("byte_transitions", 1)
				if key, what := c12WellFormed(in, o); key != "" {
					w.Violation("C12", key, fmt.Sprintf("%s\ninput: %q", what, in), map[string]any{"input": in})
				}
			}
			if i == 5 || i == 100 {
				w.Sample(map[string]any{"state_witness": s.witness, "example_input": s.witness + c12Tokens[8]})
			}
			w.End()
		}
	}
	if w.Shard == 0 {
		w.Emit("bfs", map[string]any{"states": len(states), "max_depth": maxDepth, "tokens": len(c12Tokens)})
	}
}

func trunc(s string, n int) string {
	if len(s) > n {
		return s[:n]
	}
	return s
}

type c12ExactParams struct {
	Budget    int      `json:"budget"`
	Deviation int      `json:"deviation"`
	Globals   []Global `json:"globals"`
}

func workC12Exact(w *run.W) {
	var p c12ExactParams
	json.Unmarshal(w.Params, &p)
	pal := model.DefaultPalette()
	idx := int64(-1)
	model.EnumDocs(pal, p.Budget, 0, func(d *model.Doc) {
		idx++
		if !w.Mine(idx) {
			return
		}
		if !w.Begin(fmt.Sprintf("doc%d", idx)) {
			return
		}
		defer w.End()
		w.Count("documents", 1)
		for _, g := range p.Globals {
			dt.EnumLayouts(func(l *dt.Layout) *dt.File { return buildTreeNoInclude(d, l) }, g.Layout(), p.Deviation,
				func(f *dt.File, r *dt.Rendered, l *dt.Layout) bool {
					w.Count("renderings", 1)
					c12Exact(w, r, g, l)
					return true
				})
		}
	})
}

func c12Exact(w *run.W, r *dt.Rendered, g Global, l *dt.Layout) {
	text := r.Files[r.Root]
	want := r.Lex[r.Root]
	o := impl.Scan(text, 0)
	detail := map[string]any{"input": text, "global": g.String(), "choices": l.Taken}
	if key, what := c12WellFormed(text, o); key != "" {
		w.Violation("C12", key, what+"\n"+text, detail)
		return
	}
	if o.Err != nil {
		w.Violation("C12", "exact:rejected:"+errClass(o.Err.Msg), fmt.Sprintf("scanner rejects a well-formed rendering: %s at %d\n%s", o.Err.Msg, o.Err.Index, text), detail)
		return
	}
	w.Nontrivial(text)
	if len(o.Lex) != len(want) {
		w.Violation("C12", "exact:count", fmt.Sprintf("scanner yields %d lexemes, document was rendered from %d\n got  %v\n want %v\n%s", len(o.Lex), len(want), o.Lex, want, text), detail)
		return
	}
	for i, x := range want {
		a := o.Lex[i]
		if a.Type != x.Type {
			w.Violation("C12", "exact:type:"+x.Type+"->"+a.Type, fmt.Sprintf("lexeme %d: type %s, rendered %s\n%s", i, a.Type, x.Type, text), detail)
			return
		}
		if x.Type == "T" && (x.Text != "" || true) && isFreeText(want, i) {
			// free text: the lexeme may carry surrounding blanks/newlines; it must contain the rendered extent and
			// nothing but white space beyond it
			if a.Begin > x.Begin || a.End < x.End || strings.TrimSpace(text[a.Begin:x.Begin]) != "" || strings.TrimSpace(text[x.End+1:a.End+1]) != "" {
				w.Violation("C12", "exact:text-extent", fmt.Sprintf("lexeme %d: text [%d:%d], rendered [%d:%d]\n%s", i, a.Begin, a.End, x.Begin, x.End, text), detail)
				return
			}
			continue
		}
		if (x.Type == "S" || x.Type == "E") && a.Begin == x.Begin && a.End > x.End && onlyTrivia(text[x.End+1:a.End+1]) {
			// the extent of a schema/enum body is decided by jsight-schema-core, whose length scanner also takes the
			// blank space and '#' comments that follow the body; nothing else may be swallowed
			continue
		}
		if a.Begin != x.Begin || a.End != x.End {
			w.Violation("C12", "exact:extent:"+x.Type, fmt.Sprintf("lexeme %d (%s): scanner [%d:%d] %q, rendered [%d:%d] %q\n%s", i, x.Type, a.Begin, a.End,
				text[a.Begin:min(a.End+1, len(text))], x.Begin, x.End, text[x.Begin:x.End+1], text), detail)
			return
		}
	}
	if w.Shard == 0 {
		w.Sample(map[string]any{"input": text, "lexemes": o.Lex})
	}
}

// onlyTrivia: white space, '#' line comments and '###' block comments only.
func onlyTrivia(s string) bool {
	for i := 0; i < len(s); {
		switch c := s[i]; {
		case c == ' ' || c == '\t' || c == '\n' || c == '\r':
			i++
		case strings.HasPrefix(s[i:], "###"):
			j := strings.Index(s[i+3:], "###")
			if j < 0 {
				return false
			}
			i += 3 + j + 3
		case c == '#':
			for i < len(s) && s[i] != '\n' && s[i] != '\r' {
				i++
			}
		default:
			return false
		}
	}
	return true
}

// isFreeText: a T lexeme that belongs to a Description (regex bodies are exact).
func isFreeText(want []dt.XLex, i int) bool {
	for j := i - 1; j >= 0; j-- {
		if want[j].Type == "K" {
			return want[j].Text == "Description"
		}
	}
	return false
}

// buildTreeNoInclude: tree-level sites plus MACRO moves (single file).
func buildTreeNoInclude(d *model.Doc, l *dt.Layout) *dt.File {
	f := d.ToTree(l)
	mm := listMoves(f)
	var macroMoves []move
	for _, m := range mm {
		if m.Kind != 2 {
			macroMoves = append(macroMoves, m)
		}
	}
	if len(macroMoves) > 0 {
		if k := l.Choose("move", 1+len(macroMoves)); k > 0 {
			f = applyMove(f, macroMoves[k-1], 0)
		}
	}
	return f
}

func runC12(c *chk.Ctx) {
	p := c12Params{Depth: chk.Pick(c, 3, 5), MaxStates: chk.Pick(c, 60000, 300000)}
	r := c.Pool.Run("c12bfs", p)
	c.Merge(r, "transitions")
	pe := c12ExactParams{Budget: chk.Pick(c, 3, 3), Deviation: 1, Globals: chk.Pick(c, someGlobals()[:2], allGlobals())}
	r2 := c.Pool.Run("c12exact", pe)
	c.Merge(r2, "renderings")
	cnt := c.Counts()
	c.Cov["states"] = cnt["states"]
	c.Cov["transitions"] = cnt["transitions"]
	c.Cov["traces_validated_against_impl"] = cnt["transitions"] + cnt["renderings"]
	c.Cov["exactness_renderings"] = cnt["renderings"]
	c.Cov["bfs_depth_bound"] = p.Depth
	c.Cov["bfs_state_cap"] = p.MaxStates
	if b := r.Emitted["bfs"]; len(b) > 0 {
		var m map[string]any
		json.Unmarshal(b[0], &m)
		c.Cov["bfs"] = m
		if s, ok := m["states"].(float64); ok && p.MaxStates > 0 && int(s) >= p.MaxStates {
			c.Incomplete = append(c.Incomplete, fmt.Sprintf("state cap %d reached at depth <= %d; all states below the cap were fully expanded", p.MaxStates, p.Depth))
		}
	}
	c.Cov["exactness"] = pe
	c.Cov["distinct_outcomes"] = map[string]int64{"error": cnt["out_error"], "lexeme_stream": cnt["out_lexemes"]}
	c.Cov["rule"] = "(i) BFS over token strings (tokens: every keyword, parameter/blank/line-end/comment/annotation/parenthesis/body fragments) deduplicated on the real scanner's control state (VerifState after the prefix, read by stopping the scanner with a NUL byte; prefixes whose stop is not clean are kept as their own state); every (state, token) string and every (state, single byte) string is scanned to EOF and checked for lexeme well-formedness. (ii) every model within the budget x global layouts x layouts within deviation 1 (single-file, incl. MACRO moves): the lexeme stream must equal the renderer's position map."
	os.Getpid()
}
