package checks

import (
	"encoding/json"
	"fmt"
	"os"
	"sort"
	"strings"

	"github.com/jsightapi/jsight-api-core/core"

	"verif/internal/chk"
	"verif/internal/dt"
	"verif/internal/impl"
	"verif/internal/model"
	"verif/internal/ref"
	"verif/internal/run"
)

// C19 — banned directives: all banned sets of size <= 2 x a project set that contains every kind directly, inside an
// INCLUDEd file, inside a pasted MACRO body, inside an unpasted MACRO body, and not at all.

func init() {
	chk.Register(&chk.Check{ID: "C19", Level: "exploration", Run: runC19})
	chk.RegisterWorker("c19", workC19)
	chk.RegisterWorker("c19history", workC19History)
}

func sch(lines ...string) [][]string { return [][]string{lines} }

// c19Blocks: for every directive kind a minimal valid top-level block (or blocks) containing it.
func c19Blocks() map[string][]*dt.Node {
	ok := func() *dt.Node { return dt.N("200", "any") }
	return map[string][]*dt.Node{
		"INFO":        {dt.N("INFO").Add(dt.N("Title", "T"))},
		"Title":       {dt.N("INFO").Add(dt.N("Title", "T"))},
		"Version":     {dt.N("INFO").Add(dt.N("Version", "1"))},
		"Description": {dt.N("INFO").Add(dt.N("Description").WithBody(dt.TextBody, []string{"text"}))},
		"SERVER":      {dt.N("SERVER", "@s").Add(dt.N("BaseUrl", "http://x"))},
		"BaseUrl":     {dt.N("SERVER", "@s").Add(dt.N("BaseUrl", "http://x"))},
		"URL":         {dt.N("URL", "/u").Add(dt.N("GET").Add(ok()))},
		"GET":         {dt.N("GET", "/k").Add(ok())},
		"POST":        {dt.N("POST", "/k").Add(ok())},
		"PUT":         {dt.N("PUT", "/k").Add(ok())},
		"PATCH":       {dt.N("PATCH", "/k").Add(ok())},
		"DELETE":      {dt.N("DELETE", "/k").Add(ok())},
		"Body":        {dt.N("POST", "/b").Add(dt.N("Request").Add(dt.N("Body", "any")), ok())},
		"Request":     {dt.N("POST", "/b").Add(dt.N("Request", "any"), ok())},
		"CODE":        {dt.N("GET", "/c").Add(ok())},
		"Path":        {dt.N("GET", "/p/{id}").Add(dt.N("Path").WithBody(dt.SchemaBody, []string{`{"id": 1}`}), ok())},
		"Headers":     {dt.N("GET", "/h").Add(dt.N("200").Add(dt.N("Headers").WithBody(dt.SchemaBody, []string{`{"h": "1"}`}), dt.N("Body", "any")))},
		"Query":       {dt.N("GET", "/q").Add(dt.N("Query").WithBody(dt.SchemaBody, []string{`{"q": 1}`}), ok())},
		"TYPE":        {dt.N("TYPE", "@ty", "any")},
		"ENUM":        {dt.N("ENUM", "@en").WithBody(dt.EnumBody, []string{"[1, 2]"})},
		"TAG":         {dt.N("TAG", "@tg")},
		"Tags":        {dt.N("TAG", "@tg"), dt.N("GET", "/t").Add(dt.N("Tags", "@tg"), ok())},
		"OperationId": {dt.N("GET", "/o").Add(dt.N("OperationId", "op"), ok())},
		"Protocol":    {dt.N("URL", "/r").Add(dt.N("Protocol", "json-rpc-2.0"), dt.N("Method", "m").Add(dt.N("Params").WithBody(dt.SchemaBody, []string{"{}"})))},
		"Method":      {dt.N("URL", "/r").Add(dt.N("Protocol", "json-rpc-2.0"), dt.N("Method", "m").Add(dt.N("Params").WithBody(dt.SchemaBody, []string{"{}"})))},
		"Params":      {dt.N("URL", "/r").Add(dt.N("Protocol", "json-rpc-2.0"), dt.N("Method", "m").Add(dt.N("Params").WithBody(dt.SchemaBody, []string{"{}"})))},
		"Result":      {dt.N("URL", "/r").Add(dt.N("Protocol", "json-rpc-2.0"), dt.N("Method", "m").Add(dt.N("Result").WithBody(dt.SchemaBody, []string{"{}"})))},
	}
}

type c19Project struct {
	Name    string
	P       impl.Project
	Invalid bool // rejected also without bans (malformed instance of the kind): the ban must still win
	Carrier bool // hand-written text that merely mentions keywords; skipped silently when it is not valid
}

func c19Projects() []c19Project {
	var out []c19Project
	render := func(name string, f *dt.File) {
		l := canonGlobal.Layout()
		l.Only = map[string]bool{}
		l.Reset()
		r := dt.Render(f, &l)
		out = append(out, c19Project{Name: name, P: project(r)})
	}
	js := func() *dt.Node { return dt.N("JSIGHT", "0.3") }
	blocks := c19Blocks()
	kinds := make([]string, 0, len(blocks))
	for k := range blocks {
		kinds = append(kinds, k)
	}
	sort.Strings(kinds)
	for _, k := range kinds {
		mk := func() []*dt.Node {
			var o []*dt.Node
			for _, n := range c19Blocks()[k] {
				o = append(o, n)
			}
			return o
		}
		render(k+"/direct", &dt.File{Name: "root.jst", Nodes: append([]*dt.Node{js()}, mk()...)})
		inc := dt.N("INCLUDE", "inc.jst")
		inc.Inc = &dt.File{Name: "inc.jst", Nodes: mk()}
		render(k+"/in-included-file", &dt.File{Name: "root.jst", Nodes: []*dt.Node{js(), inc}})
		bl := mk()
		last := bl[len(bl)-1]
		if ref.Admits("MACRO", last.Kind()) {
			m := dt.N("MACRO", "@mac")
			m.Explicit = true
			m.Kids = []*dt.Node{last}
			nodes := append([]*dt.Node{js()}, bl[:len(bl)-1]...)
			render(k+"/in-pasted-macro", &dt.File{Name: "root.jst", Nodes: append(nodes, m, dt.N("PASTE", "@mac"))})
			bl2 := mk()
			m2 := dt.N("MACRO", "@mac")
			m2.Explicit = true
			m2.Kids = []*dt.Node{bl2[len(bl2)-1]}
			render(k+"/in-unpasted-macro", &dt.File{Name: "root.jst", Nodes: append(append([]*dt.Node{js()}, bl2[:len(bl2)-1]...), m2)})
		}
	}
	// documents in which every keyword is spelled as a parameter value, path piece, annotation, property name, string and
	// enum value — but is not a directive (three carriers that use disjoint sets of directive kinds)
	words := append([]string{}, ref.Keywords...)
	words = append(words, "200", "404")
	for _, k := range words {
		out = append(out,
			c19Project{Name: "mentions-" + k + "/carrier-a", Carrier: true, P: impl.Single("JSIGHT 0.3\nINFO\n  Title " + k + "\n  Version " + k + "\nGET /" + k + " // " + k + "\n  OperationId " + k + "\n  200 any // " + k + "\n")},
			c19Project{Name: "mentions-" + k + "/carrier-b", Carrier: true, P: impl.Single("JSIGHT 0.3\nSERVER @s // " + k + "\n  BaseUrl " + k + "\nTAG @t // " + k + "\nURL /" + k + "\n  Protocol json-rpc-2.0\n  Method " + k + " // " + k + "\n    Params\n    {\"" + k + "\": \"" + k + "\"} // " + k + "\n")},
			c19Project{Name: "mentions-" + k + "/carrier-c", Carrier: true, P: impl.Single("JSIGHT 0.3\nTYPE @t // " + k + "\n{\"k\": \"" + k + "\"}\nENUM @e\n[\"" + k + "\"]\nPOST /p\n  Query \"" + k + "\"\n  {\"q\": \"" + k + "\"}\n  Request\n    Headers\n    {\"" + k + "\": \"" + k + "\"}\n    Body any\n  404 any\n")},
		)
	}
	// MACRO definitions (never pasted) written between the children of a URL: the expansion pass has to re-resolve the
	// contexts of what follows them even when nothing is pasted
	out = append(out,
		c19Project{Name: "macro-definitions-inside-url/unpasted", P: impl.Single("JSIGHT 0.3\nURL /x\n  MACRO @m\n  (\n    Description\n      d\n  )\n  GET\n    200 any\n  MACRO @n\n  (\n    GET\n      200 any\n  )\n  POST\n    200 any\n")},
		c19Project{Name: "macro-definition-after-url-line/unpasted", P: impl.Single("JSIGHT 0.3\nURL /x\nMACRO @m\n(\n  Description\n    d\n)\nGET\n  200 any\nTAG @t\n")},
	)
	// everything at once
	var all []*dt.Node
	seen := map[string]bool{}
	for _, k := range []string{"Description", "Version", "SERVER", "Tags", "URL", "POST", "PUT", "PATCH", "DELETE", "Body", "Path", "Headers", "Query", "TYPE", "ENUM", "OperationId", "Result", "Params"} {
		for _, n := range c19Blocks()[k] {
			key := n.Kw + strings.Join(n.Params, " ")
			if k == "Description" || k == "Version" { // one INFO
				if seen["INFO"] {
					continue
				}
				seen["INFO"] = true
				n = dt.N("INFO").Add(dt.N("Title", "T"), dt.N("Version", "1"), dt.N("Description").WithBody(dt.TextBody, []string{"text"}))
			}
			if k == "Params" || k == "Result" {
				if seen["rpc"] {
					continue
				}
				seen["rpc"] = true
				n = dt.N("URL", "/r").Add(dt.N("Protocol", "json-rpc-2.0"), dt.N("Method", "m").Add(dt.N("Params").WithBody(dt.SchemaBody, []string{"{}"}), dt.N("Result").WithBody(dt.SchemaBody, []string{"{}"})))
			}
			if seen[key] {
				continue
			}
			seen[key] = true
			// distinct paths per method to avoid duplicate interactions
			all = append(all, n)
		}
	}
	// make interaction paths unique
	for i, n := range all {
		if dt.IsMethod(n.Kw) && len(n.Params) > 0 {
			n.Params[0] = fmt.Sprintf("%s%d", n.Params[0], i)
			if n.Kw == "GET" && strings.Contains(n.Params[0], "{id}") {
				n.Params[0] = fmt.Sprintf("/pp%d/{id}", i)
			}
		}
	}
	render("all-kinds/direct", &dt.File{Name: "root.jst", Nodes: append([]*dt.Node{js()}, all...)})
	render("jsight-only", &dt.File{Name: "root.jst", Nodes: []*dt.Node{js()}})
	// a malformed instance of every kind (two surplus parameters): the ban is reported where the directive is written,
	// before anything else about it is judged
	for _, k := range c19KindNames {
		kw := k
		if k == "HTTP-response-code" {
			kw = "200"
		}
		txt := "JSIGHT 0.3\n" + kw + " zz zz\n"
		if k == "JSIGHT" {
			txt = "JSIGHT 0.3 0.3\n"
		}
		if k == "INCLUDE" {
			txt = "JSIGHT 0.3\nINCLUDE inc.jst zz\n"
		}
		out = append(out, c19Project{Name: k + "/malformed", P: impl.Single(txt), Invalid: true})
	}
	// all-kinds with INCLUDE + MACRO + PASTE
	{
		var a2 []*dt.Node
		for _, n := range all {
			a2 = append(a2, n.Clone())
		}
		inc := dt.N("INCLUDE", "inc.jst")
		inc.Inc = &dt.File{Name: "inc.jst", Nodes: a2[:3]}
		m := dt.N("MACRO", "@mac")
		m.Explicit = true
		var mk []*dt.Node
		var rest []*dt.Node
		for _, n := range a2[3:] {
			if ref.Admits("MACRO", n.Kind()) && !n.HasPath() && len(mk) < 3 {
				mk = append(mk, n)
			} else {
				rest = append(rest, n)
			}
		}
		m.Kids = mk
		nodes := append([]*dt.Node{js(), inc}, rest...)
		nodes = append(nodes, m, dt.N("PASTE", "@mac"))
		render("all-kinds/include+macro+paste", &dt.File{Name: "root.jst", Nodes: nodes})
	}
	return out
}

// kindsIn lists the directive kinds written anywhere in the project (directive-table names).
func kindsIn(p impl.Project) map[string]bool {
	out := map[string]bool{}
	for _, c := range p.Files {
		o := impl.Scan(c, 0)
		for _, l := range o.Lex {
			if l.Type == "K" {
				k := c[l.Begin : l.End+1]
				if ref.IsResponseCode(k) {
					k = "HTTP-response-code"
				}
				out[k] = true
			}
		}
	}
	return out
}

var c19KindNames = []string{"JSIGHT", "INFO", "Title", "Version", "Description", "SERVER", "BaseUrl", "URL", "GET", "POST", "PUT", "PATCH", "DELETE",
	"Body", "Request", "HTTP-response-code", "Path", "Headers", "Query", "TYPE", "ENUM", "MACRO", "PASTE", "INCLUDE", "Protocol", "Method", "Params",
	"Result", "TAG", "Tags", "OperationId"}

type c19Params struct {
	Triples bool `json:"triples"` // also all sets of size 3
	Models  int  `json:"models"`  // also every generated model within this node budget (sets of size <= 1 only)
}

func workC19(w *run.W) {
	var p c19Params
	json.Unmarshal(w.Params, &p)
	dir := workerDir(w)
	defer os.RemoveAll(dir)
	projects := c19Projects()
	nHand := len(projects)
	if p.Models > 0 {
		mi := 0
		model.EnumDocs(model.DefaultPalette(), p.Models, 0, func(d *model.Doc) {
			mi++
			l := canonGlobal.Layout()
			l.Only = map[string]bool{}
			l.Reset()
			projects = append(projects, c19Project{Name: fmt.Sprintf("model%d/direct", mi), P: project(dt.Render(d.ToTree(&l), &l))})
		})
	}
	var sets [][]string
	sets = append(sets, nil)
	for _, a := range c19KindNames {
		sets = append(sets, []string{a})
	}
	nSmall := len(sets)
	for i, a := range c19KindNames {
		for j, b := range c19KindNames[i+1:] {
			sets = append(sets, []string{a, b}, []string{b, a})
			if p.Triples {
				for _, c := range c19KindNames[i+1+j+1:] {
					sets = append(sets, []string{a, b, c})
				}
			}
		}
	}
	// everything banned, and everything but one kind
	sets = append(sets, append([]string{}, c19KindNames...))
	for i := range c19KindNames {
		var s []string
		s = append(s, c19KindNames[:i]...)
		s = append(s, c19KindNames[i+1:]...)
		sets = append(sets, s)
	}
	if w.Shard == 0 {
		w.Count("banned_sets", int64(len(sets)))
	}
	var idx int64
	for pi, pr := range projects {
		base := pr.P.Build(dir)
		if base.Panic != nil {
			continue
		}
		baseObs := "ERR " + base.Err.Tuple()
		if base.Err == nil {
			baseObs = impl.ToJson(&base.J).String()
		} else if pr.Carrier {
			continue
		} else if w.Shard == 0 && !pr.Invalid {
			w.Violation("C19", "harness:project-invalid:"+pr.Name, "check project "+pr.Name+" is not valid without bans: "+base.Err.Msg+"\n"+showProject(pr.P), nil)
		}
		present := kindsIn(pr.P)
		if w.Shard == 0 {
			w.Count("projects", 1)
		}
		for si, set := range sets {
			if pi >= nHand && si >= nSmall {
				break // generated models: the empty set and the 31 singletons
			}
			idx++
			if !w.Mine(idx) || !w.Begin(fmt.Sprintf("%s/ban%v", pr.Name, set)) {
				continue
			}
			occurs := false
			for _, k := range set {
				if present[k] {
					occurs = true
				}
			}
			b := pr.P.Build(dir, impl.Banned(set)...)
			w.Count("configurations", 1)
			w.Nontrivial(pr.Name, strings.Join(set, ","))
			detail := map[string]any{"project": pr.P, "banned": set}
			switch {
			case b.Panic != nil:
				w.Violation("C19", b.Panic.Key(), fmt.Sprintf("project %s with banned %v panics: %s", pr.Name, set, b.Panic.Value), detail)
			case occurs:
				w.Count("banned_kind_occurs", 1)
				if b.Err == nil {
					w.Violation("C19", "banned-accepted:"+placementOf(pr.Name), fmt.Sprintf("project %s contains a banned directive (%v) but is accepted\n%s", pr.Name, set, showProject(pr.P)), detail)
					break
				}
				okMsg := false
				var kind string
				for _, k := range set {
					if b.Err.Msg == "the directive is not allowed ("+k+")" && present[k] {
						okMsg, kind = true, k
					}
				}
				if !okMsg {
					w.Violation("C19", "wrong-error:"+placementOf(pr.Name), fmt.Sprintf("project %s with banned %v rejected with %q instead of the not-allowed error\n%s", pr.Name, set, b.Err.Msg, showProject(pr.P)), detail)
					break
				}
				// located on a directive of that kind
				content := pr.P.Files[b.Err.File]
				_, _, q := ref.Locate(content, int(b.Err.Index))
				word := strings.Fields(q + " x")[0]
				if ref.IsResponseCode(word) {
					word = "HTTP-response-code"
				}
				if word != kind {
					w.Violation("C19", "wrong-location:"+placementOf(pr.Name), fmt.Sprintf("project %s with banned %v: error located at %s:%d (%q), not on a %s directive\n%s", pr.Name, set, b.Err.File, b.Err.Line, q, kind, showProject(pr.P)), detail)
				}
			default:
				w.Count("no_banned_kind_occurs", 1)
				obs := "ERR " + b.Err.Tuple()
				if b.Err == nil {
					obs = impl.ToJson(&b.J).String()
				}
				if obs != baseObs {
					w.Violation("C19", "ban-changes-unrelated-project", fmt.Sprintf("project %s contains none of %v, but the result differs from the build without the option: %s", pr.Name, set, firstDiff(obs, baseObs)), detail)
				}
			}
			w.End()
		}
	}
	if w.Shard == 0 {
		w.Sample(map[string]any{"project": projects[3].Name, "files": projects[3].P.Files, "banned_set_example": []string{"Headers", "MACRO"}})
	}
}

// workC19History: Option values created once and reused across builds (a build with two options, then builds with each
// option alone) must behave like freshly created options.
func workC19History(w *run.W) {
	dir := workerDir(w)
	defer os.RemoveAll(dir)
	blocks := c19Blocks()
	var idx int64
	for _, y := range c19KindNames {
		yk := y
		if y == "HTTP-response-code" {
			yk = "CODE"
		}
		bl, ok := blocks[yk]
		if !ok {
			continue
		}
		l := canonGlobal.Layout()
		l.Only = map[string]bool{}
		l.Reset()
		var nodes []*dt.Node
		nodes = append(nodes, dt.N("JSIGHT", "0.3"))
		for _, n := range bl {
			nodes = append(nodes, n.Clone())
		}
		pr := project(dt.Render(&dt.File{Name: "root.jst", Nodes: nodes}, &l))
		present := kindsIn(pr)
		plain := pr.Build(dir)
		plainObs := "ERR " + plain.Err.Tuple()
		if plain.Err == nil {
			plainObs = impl.ToJson(&plain.J).String()
		}
		for _, x := range c19KindNames {
			if present[x] || x == y {
				continue
			}
			idx++
			if !w.Mine(idx) || !w.Begin(fmt.Sprintf("history/%s/%s", x, y)) {
				continue
			}
			optX, optY := impl.Banned([]string{x}), impl.Banned([]string{y})
			for _, order := range [][]int{{0, 1}, {1, 0}} {
				oo := [][]core.Option{optX, optY}
				both := append(append([]core.Option{}, oo[order[0]]...), oo[order[1]]...)
				b1 := pr.Build(dir, both...)
				w.Count("history_builds", 3)
				if b1.Err == nil || b1.Err.Msg != "the directive is not allowed ("+y+")" {
					w.Violation("C19", "history:both-options", fmt.Sprintf("project with %s built with options ban(%s), ban(%s): expected not-allowed(%s), got %s", y, x, y, y, errMsg(b1.Err)), nil)
				}
				b2 := pr.Build(dir, optX...)
				obs := "ERR " + b2.Err.Tuple()
				if b2.Err == nil {
					obs = impl.ToJson(&b2.J).String()
				}
				if obs != plainObs {
					w.Violation("C19", "history:option-value-changed-by-earlier-build", fmt.Sprintf("the option value ban(%s), reused after a build that also had ban(%s), now changes a project that contains no %s: %s", x, y, x, firstDiff(obs, plainObs)), map[string]any{"x": x, "y": y})
				}
				b3 := pr.Build(dir, optY...)
				if b3.Err == nil || b3.Err.Msg != "the directive is not allowed ("+y+")" {
					w.Violation("C19", "history:single-option", fmt.Sprintf("reused option ban(%s): expected not-allowed, got %s", y, errMsg(b3.Err)), nil)
				}
			}
			w.Nontrivial("history", x, y)
			w.End()
		}
	}
}

func placementOf(name string) string {
	if i := strings.Index(name, "/"); i >= 0 {
		return name[i+1:]
	}
	return name
}

func runC19(c *chk.Ctx) {
	r := c.Pool.Run("c19", c19Params{Triples: !c.Quick(), Models: chk.Pick(c, 2, 3)})
	c.Merge(r, "configurations")
	r2 := c.Pool.Run("c19history", map[string]any{})
	c.Merge(r2, "history_builds")
	c.Cov["banned_sets"] = c.Counts()["banned_sets"]
	c.Cov["rule"] = "all banned sets of size 0, 1, 2 (both orders; thorough: and 3) over the 31 directive kinds, the full set and the 31 sets that leave one kind out x a project set holding, for every kind, a minimal valid project with the kind written directly / inside an INCLUDEd file / inside a pasted MACRO body / inside an unpasted MACRO body, plus all-kinds projects, a JSIGHT-only project and a malformed instance of every kind (the ban must win over any other complaint about the directive); every generated model within the node budget with the empty set and the 31 singletons. Histories: for every ordered pair of kinds (X, Y) the option values ban(X), ban(Y) are created once and reused: build with both, then with each alone. A banned kind occurs => rejected with 'the directive is not allowed (K)' located on a directive of kind K; none occurs => the observation (catalog bytes or error tuple) equals the build without the option. non-trivial = distinct (project, banned set)"
	c.Cov["exhaustive"] = true
	_ = json.Marshal
}
