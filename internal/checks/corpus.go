package checks

import (
	"os"
	"path/filepath"
	"sort"
	"strings"
)

// corpusFiles lists every .jst file of the repository's test data (read from the current tree), sorted.
func corpusFiles() []string {
	var out []string
	filepath.Walk("/repo/testdata", func(p string, info os.FileInfo, err error) error {
		if err == nil && !info.IsDir() && strings.HasSuffix(p, ".jst") {
			out = append(out, p)
		}
		return nil
	})
	sort.Strings(out)
	return out
}

// hasInclude: the file uses INCLUDE (its meaning depends on neighbouring files).
func hasInclude(content string) bool {
	for _, l := range strings.Split(content, "\n") {
		if strings.HasPrefix(strings.TrimLeft(l, " \t"), "INCLUDE") {
			return true
		}
	}
	return false
}
