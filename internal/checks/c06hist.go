package checks

import (
	"encoding/json"
	"fmt"
	"os"
	"path/filepath"
	"strings"
	"time"

	"verif/internal/chk"
	"verif/internal/impl"
	"verif/internal/run"
)

// ---- disk histories: "nothing observable depends on prior builds" for a project that lives on disk and is edited between
// builds of one process. State = the variant every file of the project currently holds. Alphabet: set(file, variant, mode)
// - rewrite the file in place, with the modification time pinned to a constant (what `cp -p`, `rsync -t`, a reproducible
// generator or a coarse clock give) or left to the file system - and build. Every sequence of at most `depth` operations is
// executed in a directory of its own; after every build of the sequence the observation must equal the observation of the
// same file contents written into a directory that no build has ever seen (memoised per state; a fresh path per state, so
// nothing keyed by path, name, size or time can be shared with it).

type c06HistParams struct {
	Depth int `json:"depth"`
}

var c06HistFiles = []struct {
	Name     string
	Variants []string // all of one byte length per file
}{
	{"root.jst", []string{
		"JSIGHT 0.3\nINCLUDE a.jst\nINCLUDE sub/b.jst\nGET /x\n  200 @aa\n",
		"JSIGHT 0.3\nINCLUDE a.jst\nINCLUDE sub/b.jst\nGET /y\n  200 @aa\n",
	}},
	{"a.jst", []string{
		"TYPE @aa\n  {\"k\": 1}\n",
		"TYPE @aa\n  {\"q\": 2}\n",
		"TYPE @ab\n  {\"k\": 1}\n", // the root's reference to @aa dangles: a located error
		"TYPX @aa\n  {\"k\": 1}\n", // lexical error inside the included file
	}},
	{"sub/b.jst", []string{
		"TAG @t1\nINCLUDE c.jst\n",
		"TAG @t2\nINCLUDE c.jst\n",
	}},
	{"sub/c.jst", []string{
		"SERVER @s1\n  BaseUrl \"http://a.example\"\n",
		"SERVER @s2\n  BaseUrl \"http://b.example\"\n",
	}},
}

type c06HistOp struct {
	File, Variant int // File < 0: build
	Pinned        bool
}

func (o c06HistOp) String() string {
	if o.File < 0 {
		return "build"
	}
	m := "natural-mtime"
	if o.Pinned {
		m = "pinned-mtime"
	}
	return fmt.Sprintf("set(%s,v%d,%s)", c06HistFiles[o.File].Name, o.Variant, m)
}

var c06HistEpoch = time.Date(2020, 1, 2, 3, 4, 5, 0, time.UTC)

func c06HistWrite(dir string, f, v int, pinned bool) {
	p := filepath.Join(dir, c06HistFiles[f].Name)
	os.MkdirAll(filepath.Dir(p), 0o755)
	os.WriteFile(p, []byte(c06HistFiles[f].Variants[v]), 0o644)
	if pinned {
		os.Chtimes(p, c06HistEpoch, c06HistEpoch)
	}
}

func c06HistObs(dir string) string {
	b := impl.BuildDisk(filepath.Join(dir, "root.jst"))
	var o string
	switch {
	case b.Panic != nil:
		o = "PANIC " + b.Panic.Value
	case b.Err != nil:
		o = "ERR " + b.Err.Tuple()
	default:
		o = "JSON " + impl.ToJson(&b.J).String() + "\nOPENAPI " + impl.ToOpenAPI(&b.J).String()
	}
	return strings.ReplaceAll(o, dir+"/", "")
}

func workC06Hist(w *run.W) {
	var p c06HistParams
	json.Unmarshal(w.Params, &p)
	base := workerDir(w)
	defer os.RemoveAll(base)
	var alphabet []c06HistOp
	alphabet = append(alphabet, c06HistOp{File: -1})
	for f, hf := range c06HistFiles {
		for v := range hf.Variants {
			alphabet = append(alphabet, c06HistOp{f, v, true}, c06HistOp{f, v, false})
		}
	}
	ref := map[string]string{}
	refN := 0
	reference := func(state []int) string {
		k := fmt.Sprint(state)
		if o, ok := ref[k]; ok {
			return o
		}
		refN++
		d := filepath.Join(base, fmt.Sprintf("ref-%d-%d", os.Getpid(), refN))
		for f, v := range state {
			c06HistWrite(d, f, v, false)
		}
		o := c06HistObs(d)
		os.RemoveAll(d)
		ref[k] = o
		return o
	}
	var idx int64
	outcomes := map[string]bool{}
	var rec func(seq []c06HistOp)
	run1 := func(seq []c06HistOp) {
		idx++
		if !w.Mine(idx) {
			return
		}
		names := make([]string, len(seq))
		for i, o := range seq {
			names[i] = o.String()
		}
		if !w.Begin("hist/" + strings.Join(names, ",")) {
			return
		}
		defer w.End()
		d := filepath.Join(base, fmt.Sprintf("h-%d", idx))
		defer os.RemoveAll(d)
		state := make([]int, len(c06HistFiles))
		for f := range state {
			c06HistWrite(d, f, 0, true)
		}
		w.Count("histories", 1)
		for i, o := range seq {
			if o.File >= 0 {
				c06HistWrite(d, o.File, o.Variant, o.Pinned)
				state[o.File] = o.Variant
				continue
			}
			got, want := c06HistObs(d), reference(state)
			w.Count("history_builds", 1)
			outcomes[want] = true
			if got != want {
				w.Violation("C06", "prior-build-interference:file-rewritten-between-builds", fmt.Sprintf("history %s: build #%d of the history differs from a build of the same file contents in a directory no build has seen: %s\nfiles now: %s", strings.Join(names[:i+1], ", "), i+1, firstDiff(got, want), c06HistShow(state)), map[string]any{"history": names[:i+1]})
				return
			}
		}
	}
	rec = func(seq []c06HistOp) {
		if n := len(seq); n > 0 && seq[n-1].File < 0 {
			run1(seq) // every history that ends with a build (its prefixes are histories of their own)
		}
		if len(seq) == p.Depth {
			return
		}
		for _, o := range alphabet {
			if n := len(seq); n > 0 && o.File < 0 && seq[n-1].File < 0 && n >= 2 && seq[n-2].File < 0 {
				continue // a third build in a row adds nothing a second one does not
			}
			rec(append(append([]c06HistOp{}, seq...), o))
		}
	}
	rec(nil)
	w.Count("history_distinct_outcomes_seen_by_this_worker", int64(len(outcomes)))
	if w.Shard == 0 {
		w.Sample(map[string]any{"alphabet": len(alphabet), "depth": p.Depth, "files": c06HistFiles})
	}
}

func c06HistShow(state []int) string {
	var sb strings.Builder
	for f, v := range state {
		fmt.Fprintf(&sb, "\n--- %s\n%s", c06HistFiles[f].Name, c06HistFiles[f].Variants[v])
	}
	return sb.String()
}

func init() {
	chk.RegisterWorker("c06hist", workC06Hist)
	for _, f := range c06HistFiles {
		for _, v := range f.Variants {
			if len(v) != len(f.Variants[0]) {
				panic("c06hist: the variants of " + f.Name + " must have one length")
			}
		}
	}
}
