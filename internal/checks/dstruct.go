package checks

import (
	"strings"

	"verif/internal/impl"
	"verif/internal/ref"
)

// dstruct: the directive structure of an LF document, derived from the scanner's lexemes and the reference automaton.
type dstruct struct {
	text    string
	lex     []impl.Lex
	dirs    []*c08Dir
	syms    []ref.Sym
	symDir  map[int]*c08Dir // symbol index -> directive
	dirSym  []int           // directive index -> symbol index
	symIdx  map[int]int     // symbol index -> directive index
	parents []int           // per directive
	closes  map[int]impl.Lex
}

func analyse(text string) (*dstruct, bool) {
	sc := impl.Scan(text, 0)
	if sc.Err != nil || sc.Panic != nil {
		return nil, false
	}
	d := &dstruct{text: text, lex: sc.Lex, symDir: map[int]*c08Dir{}, symIdx: map[int]int{}, closes: map[int]impl.Lex{}}
	for _, l := range sc.Lex {
		l := l
		switch l.Type {
		case "K":
			x := &c08Dir{kw: l, kind: text[l.Begin : l.End+1]}
			x.isDescription = x.kind == "Description"
			d.dirs = append(d.dirs, x)
			d.symDir[len(d.syms)] = x
			d.symIdx[len(d.syms)] = len(d.dirs) - 1
			d.dirSym = append(d.dirSym, len(d.syms))
			d.syms = append(d.syms, ref.Sym{})
		case ")":
			d.closes[len(d.syms)] = l
			d.syms = append(d.syms, ref.Sym{Close: true})
		default:
			if len(d.dirs) == 0 {
				return nil, false
			}
			x := d.dirs[len(d.dirs)-1]
			switch l.Type {
			case "P":
				x.params = append(x.params, l)
			case "A":
				x.ann = &l
			case "(":
				x.open = &l
			default:
				x.body = &l
			}
		}
	}
	for si, x := range d.symDir {
		k := x.kind
		if len(k) == 3 && k[0] >= '1' && k[0] <= '5' {
			k = "CODE"
		}
		if k == "INCLUDE" {
			return nil, false
		}
		d.syms[si] = ref.Sym{Kind: k, Explicit: x.open != nil, HasPath: ref.IsMethodKind(k) && len(x.params) > 0}
	}
	a := &ref.Automaton{}
	for _, s := range d.syms {
		if a.Step(s) != ref.OK {
			return nil, false
		}
	}
	if a.End() != ref.OK {
		return nil, false
	}
	d.parents = a.Parents
	// every keyword must be first on its line
	for _, x := range d.dirs {
		if strings.TrimLeft(text[lineStart(text, x.kw.Begin):x.kw.Begin], " \t") != "" {
			return nil, false
		}
	}
	for _, c := range d.closes {
		if strings.TrimLeft(text[lineStart(text, c.Begin):c.Begin], " \t") != "" {
			return nil, false
		}
	}
	return d, true
}

func (d *dstruct) isDescendant(x, anc int) bool {
	for p := d.parents[x]; p >= 0; p = d.parents[p] {
		if p == anc {
			return true
		}
	}
	return false
}

// subtreeEndSym: symbol index where the subtree of directive di ends (first symbol that is neither a descendant nor a ')'
// closing a context opened inside the subtree).
func (d *dstruct) subtreeEndSym(di int) int {
	i := d.dirSym[di]
	depth := 0
	if d.syms[i].Explicit {
		depth = 1
	}
	for j := i + 1; j < len(d.syms); j++ {
		if d.syms[j].Close {
			if depth == 0 {
				return j
			}
			depth--
			continue
		}
		if !d.isDescendant(d.symIdx[j], di) {
			return j
		}
		if d.syms[j].Explicit {
			depth++
		}
	}
	return len(d.syms)
}

// symOffset: text offset of the start of the line that holds symbol k (len(text) past the end).
func (d *dstruct) symOffset(k int) int {
	if k >= len(d.syms) {
		return len(d.text)
	}
	if d.syms[k].Close {
		return lineStart(d.text, d.closes[k].Begin)
	}
	return lineStart(d.text, d.symDir[k].kw.Begin)
}

func (d *dstruct) children(p int) []int {
	var out []int
	for i, q := range d.parents {
		if q == p {
			out = append(out, i)
		}
	}
	return out
}

// extent of the sibling run a..b (directive indices, consecutive children of one parent): [start, end) whole lines.
func (d *dstruct) extent(a, b int) (int, int) {
	return lineStart(d.text, d.dirs[a].kw.Begin), d.symOffset(d.subtreeEndSym(b))
}

// contiguous: the siblings a..b are adjacent in the text (no ')' or foreign directive between them).
func (d *dstruct) contiguous(sibs []int) bool {
	for i := 0; i+1 < len(sibs); i++ {
		if d.subtreeEndSym(sibs[i]) != d.dirSym[sibs[i+1]] {
			return false
		}
	}
	return true
}

func (d *dstruct) kindOf(di int) string { return d.syms[d.dirSym[di]].Kind }

func (d *dstruct) subtreeKinds(a, b int) []string {
	var out []string
	s, e := d.dirSym[a], d.subtreeEndSym(b)
	for k := s; k < e; k++ {
		if !d.syms[k].Close {
			out = append(out, d.syms[k].Kind)
		}
	}
	return out
}

func indentOf(text string, off int) string {
	ls := lineStart(text, off)
	i := ls
	for i < len(text) && (text[i] == ' ' || text[i] == '\t') {
		i++
	}
	return text[ls:i]
}
