package checks

import (
	"encoding/json"
	"fmt"
	"os"
	"strings"

	"verif/internal/chk"
	"verif/internal/dt"
	"verif/internal/impl"
	"verif/internal/model"
	"verif/internal/run"
)

// C16 — all call histories over the five accessors up to a depth, each on a fresh build.

func init() {
	chk.Register(&chk.Check{ID: "C16", Level: "model_checking", Run: runC16})
	chk.RegisterWorker("c16", workC16)
}

var c16Projects = []struct{ Name, Text string }{
	{"regex-type-and-body", "JSIGHT 0.3\nTYPE @r regex\n/^[a-z]{2,5}\\d+$/\nGET /a\n  200 regex\n  /[A-F]{3}x+/\n  404 @r\n"},
	{"allof-single", "JSIGHT 0.3\nTYPE @base\n{\"b1\": 1, \"b2\": \"x\"}\nTYPE @d\n{ // {allOf: \"@base\"}\n  \"d1\": true\n}\nGET /d\n  200 @d\nPOST /d\n  Request @d\n  201 [@d]\n"},
	{"allof-list-nested", "JSIGHT 0.3\nTYPE @a\n{\"a1\": 1}\nTYPE @b\n{ // {allOf: \"@a\"}\n \"b1\": 2\n}\nTYPE @c\n{ // {allOf: [\"@b\", \"@z\"]}\n \"c1\": 3,\n \"n\": { // {allOf: \"@a\"}\n   \"n1\": 1\n }\n}\nTYPE @z\n{\"z1\": null}\nGET /c\n  200 @c\nGET /c2\n  200 @c\n"},
	{"or-and-refs", "JSIGHT 0.3\nTYPE @x\n 1\nTYPE @y\n \"s\"\nTYPE @o\n{\"p\": @x | @y, \"q\": [@x]}\nGET /o\n  Query\n  {\"f\": @x}\n  200 @o\n  404\n    @x | @y\n"},
	{"shared-type-many-interactions", "JSIGHT 0.3\nTYPE @t\n{\"id\": 1, \"r\": @t // {optional: true}\n}\nURL /s\n  GET\n    200 @t\n  POST\n    Request @t\n    200 @t\n  PUT\n    Request [@t]\n    200 [@t]\nGET /s/{id}\n  Path\n  {\"id\": @t}\n  200 @t\n"},
	{"path-variables", "JSIGHT 0.3\nTYPE @id\n 12 // {min: 1}\nGET /a/{a}/b/{b}\n  Path\n  {\"a\": @id, \"b\": \"x\" // note\n  }\n  200 any\nGET /a/{a}\n  200 empty\nDELETE /q/{q}\n  200 any\n"},
	{"tags-info-servers", "JSIGHT 0.3\nINFO\n  Title \"The API\"\n  Version 2\n  Description\n    long\n      text\nSERVER @s // S\n  BaseUrl \"https://h/\"\nTAG @t // T\n  Description\n    td\nTAG @u\nGET /x\n  Tags @t @u\n  200 any\nURL /y\n  Tags @u\n  GET\n    200 any\n"},
	{"any-empty-everywhere", "JSIGHT 0.3\nTYPE @a any\nTYPE @e empty\nPOST /p\n  Request any\n  200 empty\n  201 @a\n  202 @e\nPUT /p\n  Request empty\n  200 any\n"},
	{"enums", "JSIGHT 0.3\nENUM @e // E\n[\n \"a\", // first\n \"b\"\n]\nTYPE @t\n{\n \"k\": \"a\" // {enum: @e}\n}\nGET /e\n  200 @t\n"},
	{"jsonrpc", "JSIGHT 0.3\nTYPE @p\n{\"x\": 1}\nURL /rpc\n  Protocol json-rpc-2.0\n  Method m1 // one\n    Params @p\n    Result\n    [@p]\n  Method m2\n    Description\n      two\n    Params\n    {\"y\": @p}\n"},
	{"headers-and-query", "JSIGHT 0.3\nTYPE @h\n{\"X-T\": \"1\"}\nGET /h\n  Query \"a=1\" noFormat\n  {\"a\": 1, \"b\": [1,2]}\n  Request\n    Headers @h\n    Body any\n  200\n    Headers\n    {\"X-R\": \"r\", // {optional: true}\n     \"X-S\": 2\n    }\n    Body regex\n    /ok|fine/\n"},
	{"path-or-undefined-types", "JSIGHT 0.3\nGET /a/{id}\n  Path\n  {\"id\": @nope | @nope2}\n  200 any\n"},
	{"regex-possibly-empty-examples", "JSIGHT 0.3\nTYPE @e1 regex\n/[a-z]*/\nTYPE @e2 regex\n/.*/\nTYPE @e3 regex\n/(cat|dog)?[0-9]*/\nTYPE @e4 regex\n/x?/\nGET /e\n  200 @e1\n  201 @e2\n  202 regex\n  /(ab)*/\n  203 @e3\n  204 @e4\n"},
	{"responses-out-of-order", "JSIGHT 0.3\nGET /o\n  404 any\n  200 any\n  403 any\n  200 empty\nPOST /o\n  500 any\n  201 any\n"},
	{"two-path-directives-both-with-or-rules", "JSIGHT 0.3\nURL /cats/{id}\n  Path\n  {\n    \"id\": \"tom\" // {or: [\"string\", {type: \"integer\", min: 1}]}\n  }\n  GET /cats/{id}/toys/{toy}\n    Path\n    {\n      \"toy\": 1 // {or: [{type: \"integer\"}, \"string\"]}\n    }\n    200 any\nURL /dogs/{d}/x/{e}\n  Path\n  {\n    \"d\": 1 // {or: [{type: \"integer\"}, {type: \"boolean\"}]}\n  }\n  GET\n    Path\n    {\n      \"e\": \"s\" // {or: [{type: \"string\"}, {type: \"float\"}]}\n    }\n    200 any\n"},
	{"two-path-directives-or-rule", "JSIGHT 0.3\nURL /a/{x}/b/{y}\n  Path\n  {\"x\": 1}\n  GET\n    Path\n    {\n      \"y\": 1 // {or: [{type: \"integer\"}, {type: \"string\"}]}\n    }\n    200 any\n"},
	{"same-code-responses-with-annotations", "JSIGHT 0.3\nTAG @t\nTAG @u\nGET /r\n  Tags @u @t\n  200 // first\n  { // root note one\n    \"a\": 1\n  }\n  200 // second\n  { // root note two\n    \"b\": 2\n  }\n  404 any // none\n"},
	{"padded-title-and-annotations", "JSIGHT 0.3\nINFO\n  Title \"  Cats API  \"\n  Version \" 1 \"\nSERVER @s //   padded   \n  BaseUrl \" http://x \"\nGET /a //  two  blanks \n  200 any\n"},
	{"regex-heavy", "JSIGHT 0.3\nTYPE @r1 regex\n/[0-9a-f]{8}-[0-9a-f]{4}/\nTYPE @r2 regex\n/(foo|bar|baz){2,4}[x-z]*/\nGET /r\n  200 @r1\n  201 @r2\n  202 regex\n  /\\w+@\\w+\\.com/\n"},
}

type c16Params struct {
	Len         int `json:"len"`
	CorpusLen   int `json:"corpus_len"`
	ModelBudget int `json:"model_budget"`
	ModelLen    int `json:"model_len"`
}

const c16Ops = "JIOPT"

func histories(n int) []string {
	out := []string{}
	var rec func(p string)
	rec = func(p string) {
		if len(p) > 0 {
			out = append(out, p)
		}
		if len(p) == n {
			return
		}
		for i := 0; i < len(c16Ops); i++ {
			rec(p + string(c16Ops[i]))
		}
	}
	rec("")
	return out
}

func workC16(w *run.W) {
	var p c16Params
	json.Unmarshal(w.Params, &p)
	type proj struct {
		name  string
		build func() *impl.Built
		n     int
	}
	var projs []proj
	for _, pr := range c16Projects {
		pr := pr
		projs = append(projs, proj{"builtin:" + pr.Name, func() *impl.Built { return impl.BuildMem("root.jst", pr.Text) }, p.Len})
	}
	for _, f := range corpusFiles() {
		f := f
		projs = append(projs, proj{"corpus:" + f, func() *impl.Built { return impl.BuildDisk(f) }, p.CorpusLen})
	}
	mi := 0
	model.EnumDocs(model.DefaultPalette(), p.ModelBudget, 0, func(d *model.Doc) {
		mi++
		l := canonGlobal.Layout()
		l.Only = map[string]bool{}
		l.Reset()
		r := dt.Render(d.ToTree(&l), &l)
		txt := r.Files[r.Root]
		projs = append(projs, proj{fmt.Sprintf("model%d", mi), func() *impl.Built { return impl.BuildMem("root.jst", txt) }, p.ModelLen})
	})
	hcache := map[int][]string{}
	for i, pr := range projs {
		if !w.Mine(int64(i)) || !w.Begin(pr.name) {
			continue
		}
		b := pr.build()
		if !b.OK() {
			w.Count("projects_rejected", 1)
			w.End()
			continue
		}
		w.Count("projects", 1)
		if strings.HasPrefix(pr.name, "model") {
			w.Count("model_projects", 1)
		}
		// reference: each accessor called once on its own fresh build
		ref := map[byte]string{}
		for k := 0; k < len(c16Ops); k++ {
			fb := pr.build()
			ref[c16Ops[k]] = impl.Access(&fb.J, c16Ops[k]).String()
		}
		if _, ok := hcache[pr.n]; !ok {
			hcache[pr.n] = histories(pr.n)
		}
		outcomes := map[string]bool{}
		for _, h := range hcache[pr.n] {
			fb := pr.build()
			w.Touch() // a large corpus file with hundreds of histories may take longer than the watchdog period as a whole
			w.Count("histories", 1)
			for k := 0; k < len(h); k++ {
				got := impl.Access(&fb.J, h[k]).String()
				w.Count("calls", 1)
				outcomes[string(h[k])+got] = true
				if got != ref[h[k]] {
					w.Violation("C16", fmt.Sprintf("history:%c-differs", h[k]),
						fmt.Sprintf("project %s, history %s: call %d (%c) differs from the same accessor on a fresh build\n got:  %s\n want: %s", pr.name, h, k+1, h[k], firstDiff(got, ref[h[k]]), firstDiff(ref[h[k]], got)),
						map[string]any{"project": pr.name, "history": h})
					break
				}
			}
		}
		w.Nontrivial(pr.name)
		w.Count("distinct_outcomes", int64(len(outcomes)))
		if i < 3 {
			w.Sample(map[string]any{"project": pr.name, "example_history": "JOIJP", "histories": len(hcache[pr.n])})
		}
		w.End()
	}
	_ = os.Getpid
}

// firstDiff shows a window of a around the first byte where it differs from b.
func firstDiff(a, b string) string {
	i := 0
	for i < len(a) && i < len(b) && a[i] == b[i] {
		i++
	}
	lo := i - 60
	if lo < 0 {
		lo = 0
	}
	hi := i + 100
	if hi > len(a) {
		hi = len(a)
	}
	return fmt.Sprintf("…%s… (first difference at byte %d)", a[lo:hi], i)
}

func runC16(c *chk.Ctx) {
	p := c16Params{Len: chk.Pick(c, 5, 6), CorpusLen: chk.Pick(c, 3, 4), ModelBudget: chk.Pick(c, 2, 3), ModelLen: chk.Pick(c, 4, 3)}
	r := c.Pool.Run("c16", p)
	c.Merge(r, "histories")
	cnt := c.Counts()
	c.Cov["states"] = cnt["histories"]
	c.Cov["transitions"] = cnt["calls"]
	c.Cov["traces_validated_against_impl"] = cnt["histories"]
	c.Cov["projects"] = cnt["projects"]
	c.Cov["history_len_builtin"] = p.Len
	c.Cov["history_len_corpus"] = p.CorpusLen
	c.Cov["model_projects"] = cnt["model_projects"]
	c.Cov["model_node_budget"] = p.ModelBudget
	c.Cov["history_len_models"] = p.ModelLen
	c.Cov["distinct_observed_outcomes"] = cnt["distinct_outcomes"]
	c.Cov["rule"] = "every call sequence over {ToJson, ToJsonIndent, ToOpenAPIJson, ToOpenAPIJsonIndent, Title} up to the length bound, each on a fresh build of each project (hand-written projects exercising every lazily built piece + every accepted corpus file + every generated model up to the node budget); every call's result (bytes, error text or panic text) must equal that accessor's result when it is the only call on a fresh build"
	c.Cov["exhaustive"] = true
}
