package checks

import (
	"encoding/json"
	"fmt"
	"os"
	"path/filepath"
	"strings"

	"verif/internal/chk"
	"verif/internal/dt"
	"verif/internal/impl"
	"verif/internal/model"
	"verif/internal/run"
)

// C01 — totality: five exhaustively enumerated input families, each built by the real pipeline in a worker
// subprocess; panics are caught per case, fatal errors / hangs are attributed to the case by the driver.

func init() {
	chk.Register(&chk.Check{ID: "C01", Level: "exploration", Run: runC01})
	chk.RegisterWorker("c01bytes", workC01Bytes)
	chk.RegisterWorker("c01seq", workC01Seq)
	chk.RegisterWorker("c01macro", workC01Macro)
	chk.RegisterWorker("c01include", workC01Include)
	chk.RegisterWorker("c01root", workC01Root)
	chk.RegisterWorker("c01models", workC01Models)
	chk.RegisterWorker("c01inject", workC01Inject)
	chk.RegisterWorker("c01types", workC01Types)
}

// workC01Models: F6 — every generated valid model (canonical layout), with its top-level blocks in the original and in
// the reversed order (declaration-order dependent paths: types used before their declaration, enums declared late).
func workC01Models(w *run.W) {
	var p struct {
		Budget int `json:"budget"`
	}
	json.Unmarshal(w.Params, &p)
	dir := workerDir(w)
	defer os.RemoveAll(dir)
	pal := model.DefaultPalette()
	idx := int64(-1)
	model.EnumDocs(pal, p.Budget, 0, func(d *model.Doc) {
		idx++
		if !w.Mine(idx) || !w.Begin(fmt.Sprintf("model%d", idx)) {
			return
		}
		defer w.End()
		for _, rev := range []bool{false, true} {
			dd := d
			if rev {
				if len(d.Blocks) < 2 {
					continue
				}
				r := &model.Doc{}
				for i := len(d.Blocks) - 1; i >= 0; i-- {
					r.Blocks = append(r.Blocks, d.Blocks[i])
				}
				dd = r
			}
			l := canonGlobal.Layout()
			l.Only = map[string]bool{}
			l.Reset()
			r := dt.Render(dd.ToTree(&l), &l)
			c01Total(w, "models", project(r), dir)
			w.Nontrivial(r.Files[r.Root])
		}
	})
}

// c01Total runs one build (+ ToJson when accepted) and reports anything that is not "catalog or located error".
func c01Total(w *run.W, fam string, pr impl.Project, dir string) {
	b := pr.Build(dir)
	w.Count("builds", 1)
	switch {
	case b.Panic != nil:
		w.Violation("C01", b.Panic.Key(), fmt.Sprintf("[%s] build panics: %s\n%s", fam, b.Panic.Value, trunc(showProject(pr), 600)), map[string]any{"project": pr})
	case b.Err != nil:
		w.Count("rejected", 1)
		if b.Err.NilFile {
			w.Violation("C01", "error-without-file", fmt.Sprintf("[%s] error %q carries no file", fam, b.Err.Msg), map[string]any{"project": pr})
		}
	default:
		w.Count("accepted", 1)
		out := impl.ToJson(&b.J)
		if out.Panic != nil {
			w.Violation("C01", "tojson:"+out.Panic.Key(), fmt.Sprintf("[%s] ToJson panics on an accepted project: %s\n%s", fam, out.Panic.Value, trunc(showProject(pr), 600)), map[string]any{"project": pr})
		}
	}
}

// c01MaxStates caps the state list: if the scanner stops refusing byte 0 (the marker used to read a state) every prefix
// becomes its own state; the family then covers the first c01MaxStates prefixes and reports the cap.
const c01MaxStates = 12000

var c01RepBytes = []byte("\x01\t\n\r !\"#()*/0159@ABDEGHIJMOPQRSTUVZ[\\]aez{|}~\x7f\x80\xc3\xff")

type c01BytesParams struct {
	Depth   int  `json:"depth"`
	Triples bool `json:"triples"`
}

// workC01Bytes: F1 — every byte (and every pair / selected triple of representative bytes) after the shortest witness
// of every scanner control state.
func workC01Bytes(w *run.W) {
	var p c01BytesParams
	json.Unmarshal(w.Params, &p)
	dir := workerDir(w)
	defer os.RemoveAll(dir)
	k0, _ := c12State("")
	seen := map[string]bool{k0: true}
	type st struct {
		witness string
		depth   int
	}
	states := []st{{"", 0}}
	for i := 0; i < len(states); i++ {
		s := states[i]
		if s.depth < p.Depth {
			for _, tok := range c12Tokens[:c12BaseTokens] {
				k, dead := c12State(s.witness + tok)
				if !dead && !seen[k] && len(states) < c01MaxStates {
					seen[k] = true
					states = append(states, st{s.witness + tok, s.depth + 1})
				}
			}
		}
		if !w.Mine(int64(i)) || !w.Begin(fmt.Sprintf("state%d:%q", i, trunc(s.witness, 120))) {
			continue
		}
		w.Count("states", 1)
		for b := 0; b < 256; b++ {
			in := s.witness + string([]byte{byte(b)})
			c01Total(w, "bytes", impl.Single(in), dir)
			w.Nontrivial(in)
		}
		for _, b1 := range c01RepBytes {
			for _, b2 := range c01RepBytes {
				in := s.witness + string([]byte{b1, b2})
				c01Total(w, "bytes", impl.Single(in), dir)
				w.Nontrivial(in)
			}
		}
		if p.Triples && s.depth <= 2 {
			sb := []byte("\n \"#()/*@{[")
			for _, b1 := range sb {
				for _, b2 := range sb {
					for _, b3 := range sb {
						in := s.witness + string([]byte{b1, b2, b3})
						c01Total(w, "bytes", impl.Single(in), dir)
					}
				}
			}
		}
		if i == 3 {
			w.Sample(map[string]any{"family": "bytes", "state_witness": s.witness, "continuation_example": s.witness + "(#"})
		}
		w.End()
	}
	if w.Shard == 0 {
		w.Emit("c01bytes", map[string]any{"states": len(states), "capped": len(states) >= c01MaxStates})
	}
}

// c01Instances: well-formed and malformed instances per directive kind (F2).
var c01Instances = []string{
	"JSIGHT 0.3", "JSIGHT", "JSIGHT 0.2", "JSIGHT 0.3 // a",
	"INFO", "INFO x", "Title \"T\"", "Title", "Version 1", "Version", "Description\n  text", "Description", "Description\n(\n  t\n)",
	"SERVER @s", "SERVER", "SERVER s // a", "BaseUrl \"http://x\"", "BaseUrl",
	"URL /u", "URL", "URL /u/{id}", "URL u", "URL /u // a",
	"GET /g", "GET", "GET /g/{id}/{id}", "GET /{}", "POST /g // ann", "PUT", "PATCH /p", "DELETE",
	"Body any", "Body", "Body @T", "Body regex\n/a/", "Body\n{}", "Body @T any",
	"Request any", "Request", "Request @T", "Request\n[1]", "Request // a",
	"200 any", "200", "200 @T", "200\n{\"a\":1}", "599 empty", "200 [@T] // ok",
	"Path\n{\"id\": 1}", "Path", "Path\n@T", "Path\n{}",
	"Headers\n{\"h\": \"1\"}", "Headers", "Headers\n@T", "Headers any",
	"Query\n{\"q\": 1}", "Query", "Query \"q=1\"\n{}", "Query noFormat x\n1",
	"TYPE @T any", "TYPE", "TYPE @T", "TYPE @T\n{\"t\": @T}", "TYPE @U regex\n/a/", "TYPE @T empty", "TYPE @T\n@U | @V", "TYPE T\n1",
	"ENUM @E\n[1]", "ENUM", "ENUM @E", "ENUM @E\n[]", "ENUM @E\n[1,1]",
	"MACRO @m", "MACRO", "MACRO @m // a", "PASTE @m", "PASTE", "PASTE @x",
	"Protocol json-rpc-2.0", "Protocol", "Protocol x", "Method foo", "Method", "Params\n{}", "Params", "Result\n[1]", "Result",
	"TAG @t", "TAG", "TAG t", "Tags @t", "Tags", "Tags @t @u", "OperationId op", "OperationId",
	"(", ")", "# c", "INCLUDE x.jst",
}

type c01SeqParams struct {
	Len int `json:"len"`
}

func workC01Seq(w *run.W) {
	var p c01SeqParams
	json.Unmarshal(w.Params, &p)
	dir := workerDir(w)
	defer os.RemoveAll(dir)
	n := len(c01Instances)
	var idx int64
	for _, head := range []string{"JSIGHT 0.3\n", ""} {
		for L := 1; L <= p.Len; L++ {
			total := 1
			for i := 0; i < L; i++ {
				total *= n
			}
			for c := 0; c < total; c++ {
				idx++
				if !w.Mine(idx) {
					continue
				}
				if !w.Begin(fmt.Sprintf("seq/%q/%d/%d", head, L, c)) {
					continue
				}
				var parts []string
				x := c
				for i := 0; i < L; i++ {
					parts = append([]string{c01Instances[x%n]}, parts...)
					x /= n
				}
				in := head + strings.Join(parts, "\n") + "\n"
				c01Total(w, "sequences", impl.Single(in), dir)
				w.Nontrivial(in)
				if idx == 5000 {
					w.Sample(map[string]any{"family": "sequences", "input": in})
				}
				w.End()
			}
		}
	}
}

type c01MacroParams struct {
	Macros int `json:"macros"`
}

// workC01Macro: F3 — all PASTE graphs over k macros: each macro body pastes a subset of {macros, undefined}.
func workC01Macro(w *run.W) {
	var p c01MacroParams
	json.Unmarshal(w.Params, &p)
	dir := workerDir(w)
	defer os.RemoveAll(dir)
	k := p.Macros
	targets := k + 1 // macros + one undefined name
	sub := 1 << targets
	total := 1
	for i := 0; i < k+1; i++ { // k macro bodies + root
		total *= sub
	}
	name := func(i int) string {
		if i == k {
			return "@undef"
		}
		return fmt.Sprintf("@m%d", i)
	}
	for c := 0; c < total; c++ {
		if !w.Mine(int64(c)) || !w.Begin(fmt.Sprintf("macro/%d/%d", k, c)) {
			continue
		}
		var b strings.Builder
		b.WriteString("JSIGHT 0.3\n")
		x := c
		for m := 0; m < k; m++ {
			s := x % sub
			x /= sub
			fmt.Fprintf(&b, "MACRO %s\n(\n  TYPE @t%d any\n", name(m), m)
			for t := 0; t < targets; t++ {
				if s&(1<<t) != 0 {
					fmt.Fprintf(&b, "  PASTE %s\n", name(t))
				}
			}
			b.WriteString(")\n")
		}
		s := x % sub
		for t := 0; t < targets; t++ {
			if s&(1<<t) != 0 {
				fmt.Fprintf(&b, "PASTE %s\n", name(t))
			}
		}
		in := b.String()
		c01Total(w, "macro-graphs", impl.Single(in), dir)
		w.Nontrivial(in)
		if c == 77 {
			w.Sample(map[string]any{"family": "macro-graphs", "input": in})
		}
		w.End()
	}
}

type c01IncludeParams struct {
	Files   int `json:"files"`
	MaxList int `json:"max_list"`
}

// workC01Include: F4 — include graphs on a real directory.
func workC01Include(w *run.W) {
	var p c01IncludeParams
	json.Unmarshal(w.Params, &p)
	dir := workerDir(w)
	defer os.RemoveAll(dir)
	var targets []string
	for i := 0; i < p.Files; i++ {
		targets = append(targets, fmt.Sprintf("f%d.jst", i))
	}
	targets = append(targets, "missing.jst", "d", `""`, ".", "..", "d/g.jst", "pipe")
	// all ordered lists of <= MaxList targets
	var lists [][]string
	lists = append(lists, nil)
	for _, a := range targets {
		lists = append(lists, []string{a})
	}
	if p.MaxList >= 2 {
		for _, a := range targets {
			for _, b := range targets {
				lists = append(lists, []string{a, b})
			}
		}
	}
	placements := []string{"root", "in-context", "extra-param", "annotation", "paren-after", "explicit-context"}
	// what an included (non-root) file contains besides its own INCLUDE lines
	bodies := []string{"TYPE @t%d any\n", "GET /q%d\n  Description\n    text\x00more\n", "### unclosed block comment %d\n", "GET /q%d\n  200\n  {\"a\": \n",
		"\xff\xfe %d", "TYPE @t%d any\n(\n", ")\n# %d\n", "GET /q%d /*/\n", "ENUM @e%d\n[1] /*/\n"}
	total := 1
	for i := 0; i < p.Files; i++ {
		total *= len(lists)
	}
	var idx int64
	for c := 0; c < total; c++ {
		for pi, pl := range placements {
			for bi, body := range bodies {
				if bi > 0 && pl != "root" && pl != "in-context" {
					continue
				}
				idx++
				if !w.Mine(idx) || !w.Begin(fmt.Sprintf("inc/%d/%d/%s/%d", p.Files, c, pl, bi)) {
					continue
				}
				pr := impl.Project{Files: map[string]string{"d/g.jst": "TYPE @g any\n"}, Root: "f0.jst", Dirs: []string{"d"}, Fifos: []string{"pipe"}}
				x := c
				for f := 0; f < p.Files; f++ {
					l := lists[x%len(lists)]
					x /= len(lists)
					var b strings.Builder
					if f == 0 {
						b.WriteString("JSIGHT 0.3\n")
					}
					if f == 0 {
						fmt.Fprintf(&b, "TYPE @t%d any\n", f)
					} else {
						fmt.Fprintf(&b, body, f)
					}
					if len(l) > 0 {
						switch pl {
						case "in-context", "explicit-context":
							fmt.Fprintf(&b, "GET /p%d\n", f)
							if pl == "explicit-context" {
								b.WriteString("(\n")
							}
						}
					}
					for _, t := range l {
						switch pl {
						case "extra-param":
							fmt.Fprintf(&b, "INCLUDE %s extra\n", t)
						case "annotation":
							fmt.Fprintf(&b, "INCLUDE %s // note\n", t)
						case "paren-after":
							fmt.Fprintf(&b, "INCLUDE %s\n(\n)\n", t)
						default:
							fmt.Fprintf(&b, "INCLUDE %s\n", t)
						}
					}
					if len(l) > 0 && pl == "explicit-context" {
						b.WriteString(")\n")
					}
					pr.Files[fmt.Sprintf("f%d.jst", f)] = b.String()
				}
				_ = pi
				c01Total(w, "include-graphs", pr, dir)
				w.Nontrivial(showProject(pr))
				if idx == 500 {
					w.Sample(map[string]any{"family": "include-graphs", "project": pr})
				}
				w.End()
			}
		}
	}
}

// c01InjectDocs: compact documents that visit every kind of region (keyword line, parameters, annotation, schema body
// with comments and notes, enum body, regex body, free text, explicit context, macro, include-free).
var c01InjectDocs = []string{
	"JSIGHT 0.3\nTYPE @t // a\n{ # c1\n  \"k\": 1, // n\n  \"e\": \"a\" // {enum: @e}\n}\nENUM @e\n[\"a\", // c2\n \"b\"]\nGET /p/{i} // g\n  Description\n    te xt\n  Path\n  {\"i\": 1}\n  200 @t\n  404 regex\n  /x+/\nINFO\n  Title \"T\"\n  Description\n    one\n  \n    last\n",
	"JSIGHT 0.3\nMACRO @m\n(\n  Request\n    Headers\n    {\"h\": \"v\"}\n    Body any\n)\nURL /u\n  Protocol json-rpc-2.0\n  Method f /* a */\n    Description\n    (\n      t\n    )\n    Params\n    [1] # c\n    Result\n    @t\nPOST /q\n  PASTE @m\n  200\n  {} // n\nTYPE @t\n  12 // {min: 1}\n",
}

var c01InjectBytes = []byte("\x00\n\r \"#()/*@{}[\xff")

type c01InjectParams struct {
	Mixed bool `json:"mixed"` // also pairs of two different bytes (over a smaller byte set)
}

// workC01Inject: F7 — one or two bytes of a document replaced by a special byte, at every position / pair of positions.
func workC01Inject(w *run.W) {
	var p c01InjectParams
	json.Unmarshal(w.Params, &p)
	dir := workerDir(w)
	defer os.RemoveAll(dir)
	var n int64
	for di, doc := range c01InjectDocs {
		if b := impl.BuildMem("root.jst", doc); !b.OK() {
			w.Violation("C01", "harness:inject-doc-rejected", fmt.Sprintf("inject document %d is rejected: %v", di, b.Err), nil)
			continue
		}
		for i := 0; i < len(doc); i++ {
			n++
			if !w.Mine(n) || !w.Begin(fmt.Sprintf("inject/doc%d/pos%d", di, i)) {
				continue
			}
			for _, b1 := range c01InjectBytes {
				x := []byte(doc)
				x[i] = b1
				c01Total(w, "inject", impl.Single(string(x)), dir)
				w.Nontrivial(string(x))
				for j := i + 1; j < len(doc); j++ {
					x[j] = b1
					c01Total(w, "inject", impl.Single(string(x)), dir)
					x[j] = doc[j]
				}
				if p.Mixed {
					for _, b2 := range []byte("\x00\n\"(#") {
						if b2 == b1 {
							continue
						}
						for j := i + 1; j < len(doc); j++ {
							x[j] = b2
							c01Total(w, "inject", impl.Single(string(x)), dir)
							x[j] = doc[j]
						}
					}
				}
			}
			w.End()
		}
	}
	if w.Shard == 0 {
		w.Sample(map[string]any{"family": "inject", "documents": len(c01InjectDocs), "bytes": string(c01InjectBytes)})
	}
}

// workC01Types: F8 — every graph of three user types over the body templates x consumers (typegraphs.go).
func workC01Types(w *run.W) {
	dir := workerDir(w)
	defer os.RemoveAll(dir)
	var idx int64
	typeGraphDocs(1, func(name, text string) {
		idx++
		if !w.Mine(idx) || !w.Begin(name) {
			return
		}
		c01Total(w, "types", impl.Single(text), dir)
		w.Nontrivial(text)
		w.End()
	})
	if w.Shard == 0 {
		w.Sample(map[string]any{"family": "types", "documents": idx})
	}
}

// workC01Root: F5 — root-file edge cases.
func workC01Root(w *run.W) {
	dir := workerDir(w)
	defer os.RemoveAll(dir)
	if w.Shard != 0 {
		return
	}
	os.MkdirAll(filepath.Join(dir, "adir"), 0o755)
	os.WriteFile(filepath.Join(dir, "empty.jst"), nil, 0o644)
	for _, c := range []struct{ name, path string }{{"nonexistent", filepath.Join(dir, "nope.jst")}, {"directory", filepath.Join(dir, "adir")},
		{"empty-file", filepath.Join(dir, "empty.jst")}, {"empty-path", ""}} {
		if !w.Begin("root/" + c.name) {
			continue
		}
		b := impl.BuildDisk(c.path)
		w.Count("builds", 1)
		w.Nontrivial("root", c.name)
		if b.Panic != nil {
			w.Violation("C01", b.Panic.Key(), fmt.Sprintf("[root] building %s root panics: %s", c.name, b.Panic.Value), nil)
		} else if b.Err == nil && c.name != "empty-file" {
			w.Violation("C01", "root:"+c.name+"-accepted", "building a "+c.name+" root file returned neither catalog error nor panic", nil)
		}
		if b.Err != nil {
			w.Count("rejected", 1)
		}
		w.End()
	}
	for b := 0; b < 256; b++ {
		if !w.Begin(fmt.Sprintf("root/byte%d", b)) {
			continue
		}
		c01Total(w, "root", impl.Single(string([]byte{byte(b)})), dir)
		w.End()
	}
	// a line of n equal bytes (the quote of an error is cut at 200 bytes)
	for _, b := range []byte{0x80, 0xbf, 0xc3, 0xe2, 0xf0, 0xff, ' ', 'x', '\t'} {
		for _, n := range []int{150, 197, 198, 199, 200, 201, 202, 203, 204, 300, 1000} {
			if !w.Begin(fmt.Sprintf("root/line-of-%d-bytes-%#x", n, b)) {
				continue
			}
			line := strings.Repeat(string([]byte{b}), n)
			for _, doc := range []string{"JSIGHT 0.3\n" + line, "JSIGHT 0.3\n" + line + "\nGET /a\n", line, "JSIGHT 0.3\nGET /a // " + line + "\n  x\n", "JSIGHT 0.3\nTYPE @t\n{\"k\": \"" + line + "\", \"v\": tru}\n", "JSIGHT 0.3\nGET /a\n  Description\n    " + line + "\n  Description\n    d\n"} {
				c01Total(w, "root", impl.Single(doc), dir)
			}
			w.End()
		}
	}
	w.Sample(map[string]any{"family": "root", "cases": "nonexistent path, directory, empty file, empty path, each single byte, lines of 150-1000 equal bytes"})
}

func runC01(c *chk.Ctx) {
	steps := []struct {
		kind   string
		params any
	}{
		{"c01root", map[string]any{}},
		{"c01models", map[string]any{"budget": chk.Pick(c, 3, 4)}},
		{"c01bytes", c01BytesParams{Depth: chk.Pick(c, 4, 5), Triples: !c.Quick()}},
		{"c01seq", c01SeqParams{Len: 3}},
		{"c01macro", c01MacroParams{Macros: 3}},
		{"c01include", c01IncludeParams{Files: chk.Pick(c, 2, 3), MaxList: chk.Pick(c, 2, 1)}},
		{"c01inject", c01InjectParams{Mixed: !c.Quick()}},
		{"c01types", map[string]any{}},
	}
	fam := map[string]any{}
	for _, s := range steps {
		before := c.Counts()["builds"]
		r := c.Pool.Run(s.kind, s.params)
		c.Merge(r, "builds")
		fam[s.kind] = map[string]any{"params": s.params, "builds": c.Counts()["builds"] - before}
		if e := r.Emitted["c01bytes"]; len(e) > 0 {
			var m map[string]any
			json.Unmarshal(e[0], &m)
			fam["c01bytes_states"] = m["states"]
			if capped, _ := m["capped"].(bool); capped {
				c.Incomplete = append(c.Incomplete, fmt.Sprintf("byte family: state cap %d reached: the first %[1]d distinct scanner states in breadth-first order were expanded, deeper ones were not", c01MaxStates))
			}
		}
	}
	c.Cov["families"] = fam
	c.Cov["rule"] = "eight exhaustively enumerated families: (types) every graph of three user types whose bodies come from 11 templates referring to the other two (object, optional reference, or-shortcut, array, allOf, or-rule, rule-violating examples short and long, any, regex, scalar) x 7 consumers of the first type x both declaration orders; (inject) two compact documents covering every kind of region with one byte, and every pair of positions, replaced by each of 15 special bytes (thorough: also pairs of two different bytes); (models) every generated valid model within the node budget with its top-level blocks in declaration and in reversed order; (bytes) all 256 bytes and all pairs of ~50 class-representative bytes after the shortest witness of every scanner control state up to the token depth; (sequences) all sequences of well-formed and malformed directive instances up to the length bound, with and without a leading JSIGHT; (macro-graphs) all PASTE graphs over k macros incl. cycles and undefined targets; (include-graphs) all include lists over files/missing/directory/named-pipe/empty/dot targets x placements, on a real directory; (root) nonexistent/directory/empty root and every single byte. Oracle: a catalog or a non-nil located error, no recovered panic, no fatal error, no hang. non-trivial = distinct input, counted by content hash"
	c.Assumptions = append(c.Assumptions, "time proportional to the input is not decided; only absence of hangs (20 s per-case deadline, believed after reproduction)")
}
