package checks

import (
	"bytes"
	"encoding/json"
	"fmt"
	"os"
	"strings"
	"unicode/utf8"

	"verif/internal/chk"
	"verif/internal/dt"
	"verif/internal/impl"
	"verif/internal/model"
	"verif/internal/oj"
	"verif/internal/ref"
	"verif/internal/run"
)

// C04 / C05 / C17 — validators applied to every accepted member of four exhaustively enumerated input families:
// generated models x structural layouts, corpus files, single-line mutants of corpus files, directive-instance sequences.

func init() {
	chk.Register(&chk.Check{ID: "C04", Level: "exploration", Run: func(c *chk.Ctx) { runAcc(c, "C04") }})
	chk.Register(&chk.Check{ID: "C05", Level: "exploration", Run: func(c *chk.Ctx) { runAcc(c, "C05") }})
	chk.Register(&chk.Check{ID: "C17", Level: "exploration", Run: func(c *chk.Ctx) { runAcc(c, "C17") }})
	chk.RegisterWorker("acc", workAcc)
}

type accParams struct {
	Prop      string `json:"prop"`
	Budget    int    `json:"budget"`
	MutantMax int    `json:"mutant_max_bytes"`
	SeqLen    int    `json:"seq_len"`
	Family    string `json:"family"` // models corpus mutants sequences special
}

func runAcc(c *chk.Ctx, prop string) {
	fams := []accParams{
		{Prop: prop, Family: "special"},
		{Prop: prop, Family: "slots"},
		{Prop: prop, Family: "types"},
		{Prop: prop, Family: "corpus"},
		{Prop: prop, Family: "models", Budget: chk.Pick(c, 3, 4)},
		{Prop: prop, Family: "mutants", MutantMax: chk.Pick(c, 1200, 4096)},
		{Prop: prop, Family: "sequences", SeqLen: chk.Pick(c, 2, 3)},
	}
	per := map[string]any{}
	for _, f := range fams {
		b0, a0 := c.Counts()["inputs"], c.Counts()["accepted"]
		r := c.Pool.Run("acc", f)
		c.Merge(r, "inputs")
		per[f.Family] = map[string]any{"params": f, "inputs": c.Counts()["inputs"] - b0, "accepted": c.Counts()["accepted"] - a0}
	}
	c.Cov["families"] = per
	c.Cov["rule"] = "four finite input families, each enumerated completely: every generated model within the node budget x its structural layouts (URL grouping, child Body, MACRO/INCLUDE moves, deviation 1); every corpus .jst file; every single-line deletion and adjacent-line swap of every corpus file below the size bound; every sequence of directive instances up to the length bound; plus hand-written projects covering every notation in every position, and a document with 25 free-text slots (title, descriptions, annotations, notes, enum values and comments, path, query example, header value, JSON-RPC method name, regex) x every byte value and 14 multi-byte / escape sequences written into one slot at a time. The validator runs on every ACCEPTED member; non-trivial = accepted, distinct by content hash"
	switch prop {
	case "C04":
		c.Assumptions = append(c.Assumptions, "JDoc Exchange 2.0.0 shape as encoded in internal/ref/jdoc.go (fixed top-level keys, required fields, node typing)")
	case "C05":
		c.Assumptions = append(c.Assumptions, "only inputs that are valid UTF-8 are judged")
	case "C17":
		c.Assumptions = append(c.Assumptions, "OpenAPI 3.0.3 subset named by the property (internal/ref/oas.go); an error return is a legal outcome")
	}
}

func workAcc(w *run.W) {
	var p accParams
	json.Unmarshal(w.Params, &p)
	dir := workerDir(w)
	defer os.RemoveAll(dir)
	judge := func(id string, text string, b *impl.Built) {
		w.Count("inputs", 1)
		if b.Panic != nil {
			w.Count("build_panics(C01)", 1)
			return
		}
		if b.Err != nil {
			return
		}
		w.Count("accepted", 1)
		w.Nontrivial(id, text)
		accJudge(w, p.Prop, text, b)
	}
	switch p.Family {
	case "special":
		for i, pr := range accNegatives {
			if w.Mine(int64(i)) && w.Begin("special-negative:"+pr.Name) {
				judge(pr.Name, pr.Text, impl.BuildMem("root.jst", pr.Text))
				w.End()
			}
		}
		for i, pr := range c16Projects {
			if w.Mine(int64(i)) && w.Begin("special:"+pr.Name) {
				judge(pr.Name, pr.Text, impl.BuildMem("root.jst", pr.Text))
				w.End()
			}
		}
	case "types":
		var idx int64
		typeGraphDocs(1, func(name, text string) {
			idx++
			if !w.Mine(idx) || !w.Begin(name) {
				return
			}
			judge(name, text, impl.BuildMem("root.jst", text))
			w.End()
		})
	case "slots":
		// every string slot of a document x every byte value and a few multi-byte sequences written into it
		var idx int64
		for si := 0; si < strings.Count(accSlotDoc, "\u00a7"); si++ {
			for _, ins := range accSlotInserts() {
				idx++
				if !w.Mine(idx) || !w.Begin(fmt.Sprintf("slot%d:%q", si, ins)) {
					continue
				}
				txt := accFillSlot(si, ins)
				judge(fmt.Sprintf("slot%d", si), txt, impl.BuildMem("root.jst", txt))
				w.End()
			}
		}
	case "corpus":
		for i, f := range corpusFiles() {
			if w.Mine(int64(i)) && w.Begin("corpus:"+f) {
				txt, _ := os.ReadFile(f)
				judge(f, string(txt), impl.BuildDisk(f))
				w.End()
			}
		}
	case "mutants":
		var idx int64
		for _, f := range corpusFiles() {
			raw, _ := os.ReadFile(f)
			txt := string(raw)
			if len(txt) > p.MutantMax || hasInclude(txt) {
				continue
			}
			lines := strings.SplitAfter(txt, "\n")
			for k := 0; k < 2*len(lines); k++ {
				idx++
				if !w.Mine(idx) {
					continue
				}
				var m string
				i := k / 2
				if k%2 == 0 { // delete line i
					m = strings.Join(lines[:i], "") + strings.Join(lines[i+1:], "")
				} else { // swap lines i, i+1
					if i+1 >= len(lines) {
						continue
					}
					m = strings.Join(lines[:i], "") + lines[i+1] + lines[i] + strings.Join(lines[i+2:], "")
				}
				if !w.Begin(fmt.Sprintf("mutant:%s:%d", f, k)) {
					continue
				}
				judge("m", m, impl.BuildMem("root.jst", m))
				w.End()
			}
		}
	case "sequences":
		n := len(c01Instances)
		var idx int64
		for L := 1; L <= p.SeqLen; L++ {
			total := 1
			for i := 0; i < L; i++ {
				total *= n
			}
			for c := 0; c < total; c++ {
				idx++
				if !w.Mine(idx) {
					continue
				}
				var parts []string
				x := c
				for i := 0; i < L; i++ {
					parts = append([]string{c01Instances[x%n]}, parts...)
					x /= n
				}
				in := "JSIGHT 0.3\n" + strings.Join(parts, "\n") + "\n"
				if !w.Begin(fmt.Sprintf("seq:%d:%d", L, c)) {
					continue
				}
				judge("s", in, impl.BuildMem("root.jst", in))
				w.End()
			}
		}
	case "models":
		pal := model.DefaultPalette()
		idx := int64(-1)
		only := map[string]bool{"group": true, "bodychild": true, "move": true, "rpcorder": true}
		model.EnumDocs(pal, p.Budget, 0, func(d *model.Doc) {
			idx++
			if !w.Mine(idx) || !w.Begin(fmt.Sprintf("model:%d", idx)) {
				return
			}
			base := canonGlobal.Layout()
			base.Only = only
			dt.EnumLayouts(func(l *dt.Layout) *dt.File { return buildTree(d, l, true) }, base, 1,
				func(f *dt.File, r *dt.Rendered, l *dt.Layout) bool {
					if !dt.Legal(f.Nodes, explicitOf(r)) {
						return true
					}
					pr := project(r)
					judge("model", showProject(pr), pr.Build(dir))
					return true
				})
			w.End()
		})
	}
}

// accNegatives: documents the builder must reject (C03 owns that verdict); if a change makes one of them acceptable, the
// validators below see the catalog that results. The last group are accepted documents with an unusual trait.
var accNegatives = []struct{ Name, Text string }{
	{"dup-rpc-method", "JSIGHT 0.3\nTAG @t\nURL /r\n  Protocol json-rpc-2.0\n  Method m\n    Tags @t\n    Params\n    {}\n  Method m\n    Tags @t\n    Result\n    {}\n"},
	{"dup-http-method", "JSIGHT 0.3\nGET /a\n  200 any\nGET /a\n  201 any\n"},
	{"response-without-body-first", "JSIGHT 0.3\nGET /a\n  302\n    Headers\n    {\"L\": \"x\"}\n  200 any\n"},
	{"response-without-body-only-headers", "JSIGHT 0.3\nGET /a\n  302 // Moved\n    Headers\n    {\"L\": \"x\"}\n"},
	{"request-without-body", "JSIGHT 0.3\nPOST /a\n  Request\n    Headers\n    {\"L\": \"x\"}\n  200 any\n"},
	{"undefined-tag", "JSIGHT 0.3\nGET /a\n  Tags @nope\n  200 any\n"},
	{"undefined-type-in-body", "JSIGHT 0.3\nGET /a\n  200\n  {\"x\": @nope}\n"},
	{"response-code-600", "JSIGHT 0.3\nGET /a\n  600 any\n"},
	{"path-param-unknown", "JSIGHT 0.3\nGET /a/{id}\n  Path\n  {\"other\": 1}\n  200 any\n"},
	{"jsight-0.2", "JSIGHT 0.2\nGET /a\n  200 any\n"},
	// other spellings of the number 0.3 are not the version 0.3
	{"jsight-version-spelling-0", "JSIGHT 0.30\nGET /a\n  200 any\n"},
	{"jsight-version-spelling-1", "JSIGHT 0.300\nGET /a\n  200 any\n"},
	{"jsight-version-spelling-2", "JSIGHT 00.3\nGET /a\n  200 any\n"},
	{"jsight-version-spelling-3", "JSIGHT .3\nGET /a\n  200 any\n"},
	{"jsight-version-spelling-4", "JSIGHT 0.3e0\nGET /a\n  200 any\n"},
	{"jsight-version-spelling-5", "JSIGHT 3e-1\nGET /a\n  200 any\n"},
	{"jsight-version-spelling-6", "JSIGHT +0.3\nGET /a\n  200 any\n"},
	{"jsight-version-spelling-7", "JSIGHT \"0.30\"\nGET /a\n  200 any\n"},
	{"jsight-version-spelling-8", "JSIGHT 0.3.0\nGET /a\n  200 any\n"},
	{"jsight-version-spelling-9", "JSIGHT 0,3\nGET /a\n  200 any\n"},
	{"jsight-version-spelling-10", "JSIGHT 0.3 0.3\nGET /a\n  200 any\n"},
	{"jsight-version-spelling-11", "JSIGHT 0x0.3\nGET /a\n  200 any\n"},
	{"jsight-version-spelling-12", "JSIGHT ０.３\nGET /a\n  200 any\n"},
	{"jsight-version-spelling-13", "JSIGHT 0.29999999999999999\nGET /a\n  200 any\n"},
	// accepted, unusual
	// a declared TAG whose name is also the tag made up from the path of an untagged interaction
	{"declared-tag-equals-path-tag", "JSIGHT 0.3\nTAG @cats // Mine\n  Description\n    about\nGET /x\n  Tags @cats\n  200 any\nGET /cats\n  200 any\nGET /cats/{id}\n  200 any\n"},
	{"declared-tag-equals-path-tag-url-macro-rpc", "JSIGHT 0.3\nTAG @pets // Pets\nMACRO @m\n(\n  GET /y\n    Tags @pets\n    200 any\n)\nURL /z\n  Tags @pets\n  GET\n    200 any\nPASTE @m\nURL /pets\n  Protocol json-rpc-2.0\n  Method list\n    Params\n    {}\nGET /pets/{id}\n  200 any\n"},
	{"url-tags-and-same-path-top-level-method", "JSIGHT 0.3\nTAG @pets\nURL /cats\n  Tags @pets\n  GET\n    200 any\nPOST /cats\n  200 any\nPUT /cats/{id}\n  200 any\n"},
	// schemas whose example cannot be generated (an 'or' rule on an object / array example): found when serialising
	{"or-on-object-example-response", "JSIGHT 0.3\nGET /a\n  200\n  {\n    \"m\": {} // {or: [{type: \"object\"}, {type: \"string\"}]}\n  }\n"},
	{"or-on-array-example-type", "JSIGHT 0.3\nTYPE @t\n{\n  \"m\": [] // {or: [{type: \"array\"}, {type: \"integer\"}]}\n}\nGET /a\n  200 @t\n"},
	{"or-on-object-example-rpc", "JSIGHT 0.3\nURL /r\n  Protocol json-rpc-2.0\n  Method m\n    Params\n    {\n      \"m\": {} // {or: [{type: \"object\"}, {type: \"string\"}]}\n    }\n"},
	// messages described by headers only
	{"response-headers-only", "JSIGHT 0.3\nGET /a\n  301\n    Headers\n    {\"Location\": \"/new\"}\n"},
	{"request-headers-only", "JSIGHT 0.3\nPOST /a\n  Request\n    Headers\n    {\"X\": \"1\"}\n  200 any\n"},
	{"response-headers-only-not-last", "JSIGHT 0.3\nGET /a\n  301\n    Headers\n    {\"Location\": \"/new\"}\n  200 any\n"},
	{"paths-interleaved-abab", "JSIGHT 0.3\nGET /cats\n  200 any\nGET /dogs\n  200 any\nPOST /cats\n  200 any\nPOST /dogs\n  200 any\nDELETE /cats\n  200 any\nURL /dogs\n  PUT\n    200 any\n"},
	// quoted parameters with blanks: two different interactions whose "<protocol> <method> <path>" texts coincide
	{"interaction-ids-coincide-through-blanks", "JSIGHT 0.3\nURL \"/x /a\"\n  Protocol json-rpc-2.0\n  Method foo\n    Params\n    {}\nURL /a\n  Protocol json-rpc-2.0\n  Method \"foo /x\"\n    Params\n    {}\n"},
	{"paths-differ-in-an-invalid-byte-only", "JSIGHT 0.3\nGET /a\xff\n  200 any\nGET /a\xfe\n  200 any\n"},
	{"same-tag-twice-in-tags", "JSIGHT 0.3\nTAG @t\nGET /a\n  Tags @t @t\n  200 any\n"},
	{"same-tag-url-and-method", "JSIGHT 0.3\nTAG @t\nTAG @u\nURL /a\n  Tags @t\n  GET\n    Tags @u @t\n    200 any\n  POST\n    200 any\n"},
	{"path-or-mismatch", "JSIGHT 0.3\nGET /a/{id}\n  Path\n  {\n    \"id\": \"x\" // {or: [{type: \"integer\"}, {type: \"boolean\"}]}\n  }\n  200 any\n"},
	{"path-type-undefined", "JSIGHT 0.3\nGET /a/{id}\n  Path\n  {\n    \"id\": 1 // {type: \"@undefined\"}\n  }\n  200 any\n"},
	{"path-or-object-form-undefined", "JSIGHT 0.3\nGET /a/{id}\n  Path\n  {\n    \"id\": 1 // {or: [{type: \"@undefined\"}, {type: \"integer\"}]}\n  }\n  200 any\n"},
	{"regex-invalid-pattern", "JSIGHT 0.3\nGET /a\n  200 regex\n  /[a-/\n"},
	{"regex-type-invalid-pattern", "JSIGHT 0.3\nTYPE @r regex\n  /[a-/\nGET /a\n  200 @r\n"},
	{"regex-invalid-pattern-undeclared-path-param", "JSIGHT 0.3\nGET /a/{id}\n  200 regex\n  /[a-/\n"},
	{"regex-invalid-request-undeclared-path-param", "JSIGHT 0.3\nPOST /a/{id}/b/{x}\n  Request regex\n  /[z-a]/\n  200 any\n"},
	{"query-and-headers-undeclared-path-param", "JSIGHT 0.3\nTYPE @h\n  {\"H\": \"1\"}\nGET /a/{id}\n  Query\n  {\"q\": 1}\n  Request\n    Headers @h\n    Body any\n  200\n    Headers @h\n    Body regex\n    /(/\n"},
	{"body-only-annotation", "JSIGHT 0.3\nGET /a\n  200\n    // only an annotation\n  404 any\n"},
	{"type-body-only-annotation", "JSIGHT 0.3\nTYPE @t\n  // only an annotation\nGET /a\n  200 any\n"},
	{"allof-key-shortcut-clash", "JSIGHT 0.3\nTYPE @name\n  \"n\"\nTYPE @base\n  {\n    @name: 1\n  }\nTYPE @d\n  { // {allOf: \"@base\"}\n    \"@name\": 2\n  }\nGET /a\n  200 @d\n"},
}

// accSlotDoc: a document with a marker (section sign) in every place where free text of the author ends up in the catalog.
const accSlotDoc = "JSIGHT 0.3\nINFO\n  Title \"T\u00a7i\"\n  Description\n    de\u00a7sc\nSERVER @s // se\u00a7rv\n  BaseUrl \"http://h/\u00a7\"\nTAG @t // ta\u00a7g\n  Description\n    tag\u00a7text\nENUM @e // en\u00a7um\n[\n  \"a\", // va\u00a7l\n  \"b\u00a7c\"\n]\nTYPE @ty // ty\u00a7pe\n{\n  \"k\": 1, // no\u00a7te\n  \"s\": \"st\u00a7r\",\n  \"e\": \"a\" // {enum: @e} - x\u00a7y\n}\nGET /pa\u00a7th/{id} // me\u00a7th\n  Tags @t\n  Query \"q=\u00a71\"\n  {\"q\": 1}\n  Request\n    Headers\n    {\"X-H\": \"v\u00a71\"}\n    Body any\n  200 @ty // re\u00a7sp\n  404 regex\n  /a\u00a7b/\nURL /rpc\n  Protocol json-rpc-2.0\n  Method na\u00a7me // rp\u00a7c\n    Params\n    {\"p\": \"pa\u00a7r\"}\n"

func accFillSlot(slot int, ins string) string {
	parts := strings.Split(accSlotDoc, "\u00a7")
	var b strings.Builder
	for i, p := range parts {
		b.WriteString(p)
		if i == slot {
			b.WriteString(ins)
		}
	}
	return b.String()
}

func accSlotInserts() []string {
	out := []string{""}
	for b := 1; b < 256; b++ {
		out = append(out, string([]byte{byte(b)}))
	}
	return append(out, "\u00e9", "\u00a0", "\u2028", "\u0085", "\U000e0001", "\U0001f600", "\xe9t", "\xff\xfe", "\xc3", "\xed\xa0\x80", "\\u0000", "\\", "\\\"", "<&>", "\\u0026", "\\u003c", "\\u003e", "\\\\u0026")
}

func accJudge(w *run.W, prop, text string, b *impl.Built) {
	detail := map[string]any{"input": trunc(text, 3000)}
	switch prop {
	case "C04":
		j, ji := impl.ToJson(&b.J), impl.ToJsonIndent(&b.J)
		for _, nc := range []struct {
			name string
			c    impl.Call
		}{{"ToJson", j}, {"ToJsonIndent", ji}} {
			name, c := nc.name, nc.c
			if c.Panic != nil {
				w.Violation("C04", name+"-panics:"+c.Panic.Key(), fmt.Sprintf("%s panics on an accepted project: %s\n%s", name, c.Panic.Value, trunc(text, 800)), detail)
				return
			}
			if c.Err != "" {
				w.Violation("C04", name+"-fails:"+serErrClass(c.Err), fmt.Sprintf("%s fails on an accepted project: %s\n%s", name, c.Err, trunc(text, 800)), detail)
				return
			}
			if !utf8.ValidString(c.Out) {
				w.Violation("C04", name+"-invalid-utf8", name+" output is not valid UTF-8\n"+trunc(text, 800), detail)
				return
			}
		}
		var cp bytes.Buffer
		if err := json.Compact(&cp, []byte(ji.Out)); err != nil {
			w.Violation("C04", "indent-not-json", "ToJsonIndent output is not JSON: "+err.Error(), detail)
			return
		}
		if cp.String() != j.Out {
			w.Violation("C04", "plain-vs-indent", "ToJson and ToJsonIndent differ beyond white space: "+firstDiff(j.Out, cp.String())+"\n"+trunc(text, 800), detail)
			return
		}
		doc, err := oj.ParseOrdered([]byte(j.Out))
		if err != nil {
			w.Violation("C04", "not-json", "ToJson output is not JSON: "+err.Error(), detail)
			return
		}
		if cl, msg := ref.ValidateJDoc(doc); cl != "" {
			w.Violation("C04", "shape:"+cl, "JDoc shape violated: "+msg+"\n"+trunc(text, 800), detail)
		}
	case "C05":
		if !utf8.ValidString(text) {
			w.Count("skipped_invalid_utf8_input", 1)
			return
		}
		j := impl.ToJson(&b.J)
		if j.Panic != nil || j.Err != "" {
			w.Count("tojson_unavailable(C04)", 1)
			return
		}
		doc, err := oj.ParseOrdered([]byte(j.Out))
		if err != nil {
			return
		}
		if cl, msg := ref.ValidateCrossRefs(doc); cl != "" {
			w.Violation("C05", "xref:"+cl, "cross-reference condition violated: "+msg+"\n"+trunc(text, 800), detail)
		}
	case "C17":
		o := impl.ToOpenAPI(&b.J)
		if o.Panic != nil {
			w.Violation("C17", "openapi-panics:"+o.Panic.Key(), "ToOpenAPIJson panics: "+o.Panic.Value+"\n"+trunc(text, 800), detail)
			return
		}
		oi := impl.ToOpenAPIIndent(&b.J)
		if oi.Panic != nil {
			w.Violation("C17", "openapi-indent-panics:"+oi.Panic.Key(), "ToOpenAPIJsonIndent panics: "+oi.Panic.Value+"\n"+trunc(text, 800), detail)
			return
		}
		if o.Err != "" {
			w.Count("openapi_error_returned", 1)
			return
		}
		w.Count("openapi_documents", 1)
		doc, err := oj.ParseOrdered([]byte(o.Out))
		if err != nil {
			w.Violation("C17", "openapi-not-json", "ToOpenAPIJson output is not JSON: "+err.Error(), detail)
			return
		}
		var jd any
		if j := impl.ToJson(&b.J); j.Panic == nil && j.Err == "" {
			jd, _ = oj.ParseOrdered([]byte(j.Out))
		}
		if cl, msg := ref.ValidateOpenAPI(doc, jd); cl != "" {
			w.Violation("C17", "oas:"+cl, "OpenAPI structure violated: "+msg+"\n"+trunc(text, 800), detail)
		}
	}
	if w.Shard == 1 {
		w.Sample(map[string]any{"accepted_input": trunc(text, 400)})
	}
}

// serErrClass: the dependency's error code if there is one, else the masked head of the innermost message.
func serErrClass(e string) string {
	if i := strings.Index(e, "ERROR (code "); i >= 0 {
		j := strings.Index(e[i:], ")")
		if j > 0 {
			return e[i : i+j+1]
		}
	}
	l := lastSeg(e)
	if k := strings.IndexByte(l, '\n'); k >= 0 {
		l = l[:k]
	}
	return errClass(l)
}

func lastSeg(s string) string {
	if i := strings.LastIndex(s, ": "); i >= 0 && i+2 < len(s) {
		return s[i+2:]
	}
	return s
}
