#!/usr/bin/env python3
import json, jsonschema, glob, sys
jsonschema.validate(json.load(open('/verif/MANIFEST.json')), json.load(open('/root/.vp/MANIFEST.schema.json')))
es = json.load(open('/root/.vp/EVIDENCE.schema.json'))
for f in sorted(glob.glob('/verif/evidence/*.json')):
    try:
        jsonschema.validate(json.load(open(f)), es)
    except Exception as e:
        print("INVALID", f, str(e)[:300]); sys.exit(1)
print("manifest + evidence valid")
