// vcheck: driver and worker of the bounded model checks for jsight-api-core.
package main

import (
	"encoding/json"
	"fmt"
	"os"
	"runtime/debug"
	"strconv"

	"verif/internal/checks"
	"verif/internal/chk"
	"verif/internal/run"
)

func usage() {
	fmt.Fprintln(os.Stderr, "usage: vcheck <Cxx> [--tier quick|thorough] [--replay file] | vcheck worker ...")
	os.Exit(2)
}

func main() {
	if len(os.Args) < 2 {
		usage()
	}
	if os.Args[1] == "worker" {
		workerMain(os.Args[2:])
		return
	}
	if os.Args[1] == "prebuild" {
		checks.Prebuild()
		return
	}
	prop := os.Args[1]
	tier := os.Getenv("VERIF_TIER")
	replay := ""
	for i := 2; i < len(os.Args); i++ {
		switch os.Args[i] {
		case "--tier":
			i++
			tier = os.Args[i]
		case "--replay":
			i++
			replay = os.Args[i]
		}
	}
	if tier == "" {
		tier = "quick"
	}
	var seed int64
	if s := os.Getenv("VERIF_SEED"); s != "" {
		seed, _ = strconv.ParseInt(s, 10, 64)
	}
	ch, ok := chk.Registry[prop]
	if !ok {
		fmt.Fprintln(os.Stderr, "unknown property", prop)
		os.Exit(2)
	}
	c := chk.NewCtx(prop, tier, seed)
	c.Level = ch.Level
	defer c.Cleanup()
	if replay != "" {
		os.Exit(doReplay(c, replay))
	}
	ch.Run(c)
	code := c.Finish()
	c.Cleanup()
	os.Exit(code)
}

func doReplay(c *chk.Ctx, path string) int {
	b, err := os.ReadFile(path)
	if err != nil {
		fmt.Fprintln(os.Stderr, err)
		return 2
	}
	var v run.Violation
	if err := json.Unmarshal(b, &v); err != nil {
		fmt.Fprintln(os.Stderr, err)
		return 2
	}
	r := c.Pool.RunOnly(v.Kind, v.Params, v.CaseID)
	n := 0
	for _, x := range r.Violations {
		n++
		fmt.Printf("VIOLATION property=%s replay=%s\n  key=%s\n  what=%s\n", x.Prop, path, x.Key, x.What)
		d, _ := json.MarshalIndent(x.Detail, "  ", " ")
		fmt.Printf("  detail=%s\n", d)
	}
	for _, cr := range r.Crashes {
		n++
		fmt.Printf("VIOLATION property=%s replay=%s\n  crash=%s\n", c.Prop, path, cr.Stderr)
	}
	if len(r.Incomplete) > 0 && n == 0 {
		fmt.Println("replay: worker died:", r.Incomplete)
		return 1
	}
	if n == 0 {
		fmt.Println("replay: no violation reproduced")
		return 0
	}
	return 1
}

func workerMain(a []string) {
	// worker <kind> <shard> <of> <params> <cur> <hashes> <only> <resume>
	if len(a) < 8 {
		usage()
	}
	kind := a[0]
	shard, _ := strconv.Atoi(a[1])
	of, _ := strconv.Atoi(a[2])
	f, ok := chk.Workers[kind]
	if !ok {
		fmt.Fprintln(os.Stderr, "unknown worker kind", kind)
		os.Exit(2)
	}
	// a runaway recursion must die quickly: 128 MiB of stack is far beyond anything the library needs
	debug.SetMaxStack(128 << 20)
	w := run.NewW(kind, shard, of, a[6], a[7], a[4], a[5], json.RawMessage(a[3]))
	f(w)
	w.Finish()
}
