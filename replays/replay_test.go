// Plain replays of the recorded (open) findings, without the explorer: go test ./replays -v
// Each case builds the project with the real library and reports whether the recorded observation still shows.
// A case that no longer reproduces is logged, not failed: the finding may have been repaired.
package replays

import (
	"encoding/json"
	"os"
	"path/filepath"
	"strings"
	"testing"

	"github.com/jsightapi/jsight-api-core/kit"
)

type replay struct {
	Property string            `json:"property"`
	Key      string            `json:"key"`
	Files    map[string]string `json:"files"`
	Root     string            `json:"root"`
	Oracle   string            `json:"oracle"`
	Observed struct {
		MsgContains   string `json:"msg_contains"`
		File          string `json:"file"`
		Line          int    `json:"line"`
		ErrorContains string `json:"error_contains"`
		IndexIsLen    bool   `json:"index_equals_file_length"`
	} `json:"observed_when_defect_present"`
}

func TestKnownFindings(t *testing.T) {
	files, _ := filepath.Glob("known/*.json")
	for _, f := range files {
		b, err := os.ReadFile(f)
		if err != nil {
			t.Fatal(err)
		}
		var r replay
		if err := json.Unmarshal(b, &r); err != nil {
			t.Fatalf("%s: %v", f, err)
		}
		t.Run(filepath.Base(f), func(t *testing.T) {
			dir := t.TempDir()
			for n, c := range r.Files {
				p := filepath.Join(dir, n)
				os.MkdirAll(filepath.Dir(p), 0o755)
				os.WriteFile(p, []byte(c), 0o644)
			}
			_, je := kit.NewJapi(filepath.Join(dir, r.Root))
			if je == nil {
				t.Logf("NOT REPRODUCED (%s %s): the project is accepted", r.Property, r.Key)
				return
			}
			name := strings.TrimPrefix(je.File.Name(), dir+"/")
			full := strings.ReplaceAll(je.Error(), dir+"/", "")
			ok := strings.Contains(je.Msg, r.Observed.MsgContains) && name == r.Observed.File && int(je.Line) == r.Observed.Line &&
				(r.Observed.ErrorContains == "" || strings.Contains(full, r.Observed.ErrorContains)) &&
				(!r.Observed.IndexIsLen || int(je.Index) == len(r.Files[r.Observed.File]))
			if ok {
				t.Logf("REPRODUCED (%s %s): %q at %s:%d index %d\n%s\noracle: %s", r.Property, r.Key, je.Msg, name, je.Line, je.Index, full, r.Oracle)
			} else {
				t.Logf("NOT REPRODUCED as recorded (%s %s): %q at %s:%d index %d\n%s", r.Property, r.Key, je.Msg, name, je.Line, je.Index, full)
			}
		})
	}
}

// TestKnownC15SharedRegexExample replays the open C15 finding: the same three TYPE blocks in two orders give different
// "example" strings for @a and @b (everything else is equal).
func TestKnownC15SharedRegexExample(t *testing.T) {
	head := "JSIGHT 0.3\nTYPE @r regex\n  /[a-z]{8}/\n"
	a := "TYPE @a\n  {\"x\": @r}\n"
	b := "TYPE @b\n  {\"y\": @r}\n"
	example := func(doc, typ string) string {
		dir := t.TempDir()
		p := filepath.Join(dir, "root.jst")
		os.WriteFile(p, []byte(doc), 0o644)
		j, je := kit.NewJapi(p)
		if je != nil {
			t.Fatalf("rejected: %v", je)
		}
		out, err := j.ToJson()
		if err != nil {
			t.Fatal(err)
		}
		var m struct {
			UserTypes map[string]struct {
				Schema struct {
					Example string `json:"example"`
				} `json:"schema"`
			} `json:"userTypes"`
		}
		if err := json.Unmarshal(out, &m); err != nil {
			t.Fatal(err)
		}
		return m.UserTypes[typ].Schema.Example
	}
	e1, e2 := example(head+a+b, "@a"), example(head+b+a, "@a")
	if e1 != e2 {
		t.Logf("REPRODUCED (C15 entry-changed:example-of-shared-regex-type): example of @a is %s when @a is declared before @b and %s when it is declared after it\noracle: permuting independent top-level blocks leaves the content of every entry unchanged", e1, e2)
	} else {
		t.Logf("NOT REPRODUCED (C15 entry-changed:example-of-shared-regex-type): %s in both orders", e1)
	}
}

// TestKnownC06DependencyMapOrder replays the open C06 finding: the location of "Type @c not found" in a cycle of three
// types depends on the iteration order of a map inside jsight-schema-core (free-running: Go randomises it).
func TestKnownC06DependencyMapOrder(t *testing.T) {
	doc := "JSIGHT 0.3\nGET /x/{id}\n  Path\n    @a\n  200 any\nTYPE @c any\nTYPE @b\n  @c | @a\nTYPE @a\n{\n  \"k\": @b // {optional: true}\n}\n"
	dir := t.TempDir()
	p := filepath.Join(dir, "root.jst")
	os.WriteFile(p, []byte(doc), 0o644)
	seen := map[string]int{}
	for i := 0; i < 400; i++ {
		_, je := kit.NewJapi(p)
		if je == nil {
			t.Logf("NOT REPRODUCED: accepted")
			return
		}
		seen[strings.ReplaceAll(je.Error(), dir+"/", "")+" @ line "+string(rune('0'+je.Line%10))+" index "+strings.TrimSpace(strings.Repeat(" ", 0))+itoa(int(je.Index))]++
	}
	if len(seen) > 1 {
		t.Logf("REPRODUCED (C06 map-order in jsight-schema-core checker): 400 builds of one document gave %d different errors: %v\noracle: the same project gives the same error, with the same index and line", len(seen), seen)
	} else {
		t.Logf("NOT REPRODUCED in 400 builds (one outcome): %v", seen)
	}
}

func itoa(n int) string {
	if n == 0 {
		return "0"
	}
	s := ""
	for n > 0 {
		s = string(rune('0'+n%10)) + s
		n /= 10
	}
	return s
}
