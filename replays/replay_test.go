// Plain replays of the recorded (open) findings, without the explorer: go test ./replays -v
// Each case builds the project with the real library and reports whether the recorded observation still shows.
// A case that no longer reproduces is logged, not failed: the finding may have been repaired.
package replays

import (
	"encoding/json"
	"os"
	"path/filepath"
	"strings"
	"testing"

	"github.com/jsightapi/jsight-api-core/kit"
)

type replay struct {
	Property string            `json:"property"`
	Key      string            `json:"key"`
	Files    map[string]string `json:"files"`
	Root     string            `json:"root"`
	Oracle   string            `json:"oracle"`
	Observed struct {
		MsgContains   string `json:"msg_contains"`
		File          string `json:"file"`
		Line          int    `json:"line"`
		ErrorContains string `json:"error_contains"`
		IndexIsLen    bool   `json:"index_equals_file_length"`
	} `json:"observed_when_defect_present"`
}

func TestKnownFindings(t *testing.T) {
	files, _ := filepath.Glob("known/*.json")
	for _, f := range files {
		b, err := os.ReadFile(f)
		if err != nil {
			t.Fatal(err)
		}
		var r replay
		if err := json.Unmarshal(b, &r); err != nil {
			t.Fatalf("%s: %v", f, err)
		}
		t.Run(filepath.Base(f), func(t *testing.T) {
			dir := t.TempDir()
			for n, c := range r.Files {
				p := filepath.Join(dir, n)
				os.MkdirAll(filepath.Dir(p), 0o755)
				os.WriteFile(p, []byte(c), 0o644)
			}
			_, je := kit.NewJapi(filepath.Join(dir, r.Root))
			if je == nil {
				t.Logf("NOT REPRODUCED (%s %s): the project is accepted", r.Property, r.Key)
				return
			}
			name := strings.TrimPrefix(je.File.Name(), dir+"/")
			full := strings.ReplaceAll(je.Error(), dir+"/", "")
			ok := strings.Contains(je.Msg, r.Observed.MsgContains) && name == r.Observed.File && int(je.Line) == r.Observed.Line &&
				(r.Observed.ErrorContains == "" || strings.Contains(full, r.Observed.ErrorContains)) &&
				(!r.Observed.IndexIsLen || int(je.Index) == len(r.Files[r.Observed.File]))
			if ok {
				t.Logf("REPRODUCED (%s %s): %q at %s:%d index %d\n%s\noracle: %s", r.Property, r.Key, je.Msg, name, je.Line, je.Index, full, r.Oracle)
			} else {
				t.Logf("NOT REPRODUCED as recorded (%s %s): %q at %s:%d index %d\n%s", r.Property, r.Key, je.Msg, name, je.Line, je.Index, full)
			}
		})
	}
}
