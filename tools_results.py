#!/usr/bin/env python3
"""Builds /verif/seeded/RESULTS.md from an evaluation log produced by bin/mutant-eval runs (see /root/rf/matrix.sh)
and the reverse-fix log. Usage: tools_results.py <eval logs in chronological order...> [<...reverse.log>]"""
import sys, re, json, os
logs = [a for a in sys.argv[1:] if not a.endswith('reverse.log')]
log = ''.join(open(a).read() for a in logs)
rows = []
stale = set()
NEUTRALISED = {
    'C18-A': 'none — neutralised by the repair dc9805b (every schema is compiled when the build returns)',
    'C09-B': 'none on the final tree — neutralised by the repair 30a67a7 (Directive.Equal has no caller left); reported by C09 before that repair',
    'C09-2B': 'none on the final tree — neutralised by the repair 30a67a7 (Directive.Equal has no caller left); reported by C09 before that repair',
}
for blk in log.split('=== ')[1:]:
    head = blk.split('\n', 1)[0]
    m = re.match(r'(\S+) against (.*)', head)
    if not m: continue
    seed, checks = m.group(1), m.group(2).split()
    suite = 'passes' if 'SUITE: passes' in blk else ('FAILS' if 'SUITE: FAILS' in blk else ('does not apply' if 'does not apply' in blk else '?'))
    per = {}
    for c in checks:
        mm = re.search(r'^%s rc=(\d+) (\d+)s violations=(\d+)' % c, blk, re.M)
        if mm: per[c] = (int(mm.group(1)), int(mm.group(2)), int(mm.group(3)))
    caught = re.search(r'CAUGHT BY:(.*)', blk)
    if 'patch does not apply' in blk:
        # the tree moved on (later repairs touch the same lines): the earlier evaluation stands, with a remark
        stale.add(seed)
        continue
    rows = [r for r in rows if r[0] != seed]  # a later evaluation of the same change replaces the earlier one
    rows.append((seed, suite, per, caught.group(1).strip() if caught else '?'))
rows.sort()
out = ["# Seeded property-breaking changes and which checks report them", "",
       "Every change below was written by an independent sub-agent that saw only the property text and a scratch worktree of the",
       "repository; each was confirmed in a scratch worktree (`bin/seed-verify`: the repository's suite passes with the change, the agent's",
       "demonstration fails with it and passes without it) and then applied to /repo's working tree, the quick tier of the listed checks",
       "was run, and the change was reverted (`bin/mutant-eval`). rc=1 means the check printed VIOLATION lines and exited 1.", "",
       "| change | breaks | what it is (see seeded/<id>/agent_notes.txt) | repository suite with the change | checks run → result | reported by |",
       "|---|---|---|---|---|---|"]
for seed, suite, per, caught in rows:
    d = f'/verif/seeded/{seed}'
    what = ''
    try:
        notes = open(d + '/agent_notes.txt').read().strip().split('\n')
        what = next((l for l in notes if l.strip()), '')[:160].replace('|', '/')
    except Exception: pass
    res = ', '.join(f"{c}: rc={v[0]} ({v[2]} violation lines, {v[1]} s)" for c, v in per.items())
    if seed in NEUTRALISED:
        caught = NEUTRALISED[seed]
    elif seed in stale:
        caught += ' (evaluated before later repairs of the same lines; the patch does not apply to the final tree any more)'
    out.append(f"| {seed} | {seed.split('-')[0]} | {what} | {suite} | {res} | {caught} |")
    try:
        meta = json.load(open(d + '/meta.json')); meta['detected_by'] = caught; meta['checks_run'] = {c: {'exit': v[0], 'violation_lines': v[2], 'seconds': v[1]} for c, v in per.items()}
        json.dump(meta, open(d + '/meta.json', 'w'), indent=1)
    except Exception: pass
rev = [a for a in sys.argv[1:] if re.search(r'reverse\w*\.log$', a) and os.path.exists(a)]
if rev:
    out += ["", "## Repairs reverse-applied", "", "Each `fix:` commit of /repo reverse-applied to the working tree (the suite passes by construction): the owning check must alarm.", "",
            "| commit | property | subject | reported by |", "|---|---|---|---|"]
    rows = {}
    subsumed = {'3d10588', 'ccd3eea', '79c64d1'}
    for f in rev:  # later logs override earlier ones
        for blk in open(f).read().split('=== revert ')[1:]:
            mm = re.match(r'(\S+) \(property ([^)]*?)\s*\): (.*)', blk.split('\n', 1)[0])
            caught = re.search(r'CAUGHT BY:(.*)', blk)
            note = caught.group(1).strip() if caught else ('reverse patch does not build / apply any more (later repairs stand on it)' if 'build fails' in blk or 'does not apply' in blk else '?')
            if mm:
                if note == 'none' and mm.group(1) in subsumed:
                    note = 'none - subsumed: the later validateSchemas repair (dc9805b) rejects the original inputs with a located error even without this commit'
                rows[mm.group(1)] = f"| {mm.group(1)} | {mm.group(2)} | {mm.group(3)[:110]} | {note} |"
    out += list(rows.values())
open('/verif/seeded/RESULTS.md', 'w').write('\n'.join(out) + '\n')
print('\n'.join(out[9:]))
