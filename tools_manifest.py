#!/usr/bin/env python3
"""Generates /verif/MANIFEST.json from the table below (single source of truth for claimed checks)."""
import json, subprocess

CLAIMED = {
 # id: (level, technique, text, note)
 "C13": ("model_checking", "explicit-state BFS of the real scanner over the full byte alphabet, lock-step with a reference keyword automaton",
         "All byte strings are explored breadth-first from every directive-start context over 256 bytes + EOF until the scanner rejects or completes a keyword; every transition and every (keyword, terminator) pair is executed on the real scanner and compared with the reference keyword set; the space is finite (depth <= 12) and enumerated completely.",
         "Trusts the frozen reference keyword list (internal/ref/keywords.go) and the read-only VerifState() accessor used to tell 'inside a keyword' from 'between directives'."),

 "C01": ("exploration", "bounded exhaustive input enumeration (scanner-state x byte continuations, directive-instance sequences, macro graphs, include graphs) on the real pipeline in crash-isolated worker subprocesses",
         "Five finite input families are enumerated completely and every member is built by the real code; a recovered panic, a fatal worker death (stack overflow, out of memory), a reproduced hang or a result that is neither a catalog nor a located error is a violation.",
         "Trusts Go's recover for panics and the driver's attribution of a dead worker to the case it had announced; inputs beyond the stated bounds and time-proportionality are not decided."),
 "C02": ("exploration", "small-scope exhaustive enumeration of document models x layouts within a deviation bound, compared with a model-derived expected catalog",
         "Every document model within the node budget is rendered in every layout within the deviation bound (incl. MACRO/PASTE and INCLUDE moves) and built by the real code; the parsed ToJson output must equal, with key order, the JDoc document computed from the model alone.",
         "Trusts internal/model (expected JDoc built from the model, checked against the pinned fixtures while developing), the reference context automaton used to discard renderings whose tree is not the intended one, and the palettes as representatives; 'example' strings are not compared."),
 "C11": ("model_checking", "explicit-state BFS over all reachable open-context chains of a reference automaton; every (state, symbol) transition replayed on the real scanner + context resolution",
         "All reachable states of the reference context automaton are explored with every symbol of the alphabet (31 kinds x explicit/implicit x path/no-path, ')'); each transition is executed on the real code from the state's shortest witness and verdict, error class and line, open-context chain and directive tree are compared; all sequences up to length 3 are additionally run without deduplication.",
         "Trusts the frozen copy of the allowed-context table in internal/ref/context.go and the read-only accessors VerifScanOnly/VerifContextChain/VerifTree; one well-formed instance per directive kind."),
 "C12": ("model_checking", "explicit-state BFS of the real scanner at token level (state = VerifState) with a well-formedness oracle on every explored string, plus exhaustive model x layout exactness against the renderer's position map",
         "Token strings are explored breadth-first and deduplicated on the real scanner's control state; every (state, token) string is scanned to EOF and its lexeme stream checked (inside file, ordered, non-overlapping, per-directive shape). For every generated document x layout the lexeme stream must equal the position map byte for byte.",
         "Dedup key soundness: VerifState holds everything step functions read besides the input; prefixes whose state cannot be read cleanly are kept as separate states. The extent of schema/enum bodies is decided by jsight-schema-core (trailing blanks/comments may be swallowed, nothing else)."),

 "C04": ("exploration", "bounded exhaustive enumeration of accepted inputs (models x layouts, corpus, all single-line corpus mutants, directive-instance sequences) with a JDoc shape validator",
         "Every accepted member of the enumerated input families is serialised with ToJson and ToJsonIndent; both must succeed, be valid UTF-8 JSON, agree up to white space and satisfy the JDoc Exchange 2.0.0 shape validator.",
         "Trusts internal/ref/jdoc.go as the statement of the JDoc 2.0.0 shape; inputs outside the families are not covered."),
 "C05": ("exploration", "bounded exhaustive enumeration of accepted inputs with a cross-reference closure validator on the serialised catalog",
         "Every accepted valid-UTF-8 member of the same families: interaction key/id/fields agree, tag <-> interaction relation is exact (exactly once, right protocol, both directions), used type/enum names are defined, pathVariables equal the path's parameters, response codes 100-599 with bodies, JSight version 0.3.",
         "Trusts internal/ref/jdoc.go (ValidateCrossRefs)."),
 "C16": ("model_checking", "exhaustive enumeration of call histories over the five accessors up to a length bound, each on a fresh build, compared with the single-call result",
         "For every project (hand-written projects exercising each lazily built piece + every accepted corpus file) every call sequence up to the bound is executed on a fresh build; every call must return what the same accessor returns as the only call on a fresh build.",
         "Histories longer than the bound and projects outside the set are not covered; panics inside an accessor are compared as results."),
 "C17": ("exploration", "bounded exhaustive enumeration of accepted inputs with an OpenAPI 3.0.3 structural validator; panics caught per case",
         "Every accepted member of the families is exported with ToOpenAPIJson/ToOpenAPIJsonIndent: no panic; either an error or a document in which every HTTP interaction is paths[path][method], every {parameter} is a required path parameter, every $ref resolves, every user type is a component and response keys are status codes.",
         "Trusts internal/ref/oas.go; an error return is accepted as the property allows."),

 "C03": ("fault_enumeration", "exhaustive single-fault injection: every generated valid model x every fault class x every applicable site x layouts (incl. fault inside a pasted MACRO body / an INCLUDEd file)",
         "For every valid model within the node budget, every fault class of the property is injected at every site where it applies; the faulty project must be rejected with the message of the class, in the file and on the line of the offending directive as recorded by the renderer's position map.",
         "Trusts the renderer's position map and the class -> message table in internal/checks/c03.go; classes where the language leaves the offending directive open (similar paths) accept either."),
 "C07": ("exploration", "bounded exhaustive enumeration of rejected projects (all include graphs up to k files x fault kind x position x line ending; all single-fault documents; all directive-instance sequences) with an independent location/trace reference",
         "For every rejected member: the error names a file of the project, an index inside it, the line/column recomputed independently from that index, the text of that line as quote, and Error() is the message followed by exactly the chain of INCLUDE directives of the reference include expansion, innermost first.",
         "Trusts internal/ref/location.go and the reference include expansion in internal/checks/c07.go; files with mixed line endings are not judged."),

 "C08": ("exploration", "bounded exhaustive enumeration of layout rewrites at every legal site of every corpus document (single sites, all sites at once, global products; pairs in the thorough tier), differential oracle original vs rewritten",
         "For every qualifying corpus document every listed rewrite is applied at every legal site computed from the original's lexemes; an accepted original must stay accepted with the same catalog, a rule-rejected original must stay rejected with the same error class and the error must move with the text. Generated documents x layouts are decided by C02/C03.",
         "Legal sites are stated conservatively (no comment insertion after free Description text, no context wrap around PASTE-dependent subtrees or inside MACRO bodies, not in files using block comments); CR/CRLF inside string values and, for re-indentation, white space inside multi-line notes are normalised."),
 "C09": ("exploration", "bounded exhaustive enumeration of INCLUDE cut sets over corpus documents (every sibling run at every level, nested chains, pairs), differential oracle unsplit vs split project on a real directory",
         "Every contiguous sibling run of every qualifying corpus document is moved to its own file (with/without final newline, LF/CRLF piece; nested include chains of depth 2-3; pairs of cuts in the thorough tier); the split project must give byte-identical ToJson output, and for rule-rejected documents the same message at the mapped file and line.",
         "Cut positions come from the scanner's lexemes and the reference context automaton; documents the automaton cannot confirm are skipped. Generated models x INCLUDE moves are decided by C02/C03/C07."),
 "C10": ("exploration", "bounded exhaustive enumeration of MACRO abstractions of sibling runs over corpus documents (differential oracle: identical catalog bytes and expanded directive tree) and of all macro call graphs on 3 macros against a reference verdict",
         "Every eligible sibling run of every accepted corpus document is abstracted into MACRO+PASTE (one macro before/after use, nested macros, two macros); ToJson bytes and the expanded directive tree must equal the in-place form. All 65,536 PASTE graphs over 3 macros and an undefined name are built and compared with the reference verdict (reachable cycle -> recursion error, reachable undefined -> macro not found, otherwise accepted with exactly the expanded declarations in order).",
         "Eligibility (PASTE admitted at the site, MACRO admits the kinds, run stays inside the MACRO subtree) is decided by the reference automaton; unreachable cycles may give either verdict."),
 "C15": ("exploration", "bounded exhaustive enumeration of permutations of independent top-level blocks (all permutations up to N blocks, transpositions/rotations/reversal beyond) over corpus, generated and hand-written dependency-shape documents",
         "For every qualifying accepted document every permutation within the bound is built: it must be accepted, every section must hold the same entries with deep-equal content, and the key order of each section and the interaction order inside each tag must follow the new text order.",
         "Block -> catalog key attribution is computed from the text and validated against the original catalog (documents it cannot explain are skipped and counted)."),

 "C14": ("model_checking", "exhaustive enumeration of INCLUDE parameter strings over a path alphabet with the library's file-system accesses observed through an os-shim build overlay (cross-checked against strace), plus all include graphs up to k files against a reference include expansion",
         "Every parameter string up to the length bound (bare and quoted, included from the root and from a sub-directory) is built on a layout with decoys outside the project; every observed file-system access must be the root, the including file or lie in the including file's directory, and names with '.'/'..' segments, absolute names and backslashes must be refused without any access. Every include graph on k files (with missing-file and directory targets) must get the reference verdict: recursion error iff a file is re-entered while on the include stack, repeated inclusion accepted, missing/directory located at the INCLUDE.",
         "The shim only sees calls made through package os (rewritten in every library file of the repository and of jsight-schema-core); strace on every 97th case validates that nothing bypasses it where ptrace is permitted. No symlinks are created."),
 "C19": ("exploration", "exhaustive enumeration of banned-directive configurations (all sets of size <= 2 over the 31 kinds) x a project set with every kind in every placement",
         "For all 497 banned sets and every project of the set (each kind written directly, inside an INCLUDEd file, inside a pasted MACRO body, inside an unpasted MACRO body, and absent): a banned kind occurs => rejected with the not-allowed error located on a directive of that kind; none occurs => the result equals the build without the option.",
         "Projects are minimal valid documents per kind plus all-kinds documents; banned sets larger than 2 are not enumerated."),

 "C06": ("model_checking", "stateless DFS over map-iteration orders on the real code: every `range <map>` of jsight-api-core and jsight-schema-core is rewritten by a type-directed build overlay to take its order from the explorer (deviation-bounded), plus same-process / cross-process / after-another-build repetition, and exhaustive depth-bounded edit/build histories of a project on disk",
         "For every project all executions with at most `bound` non-canonically ordered map ranges are run (all permutations for maps of up to 4 keys) and must produce identical catalog + OpenAPI bytes or an identical error tuple; each diverging execution is replayed twice; every project is also built twice in one process, in a second process, and every ordered pair of the hand-written set is built in one process; and over a four-file project on disk every history of at most 4 (thorough 5) operations {build, rewrite a file in place with pinned or natural mtime} is executed, every build in it compared with a build of the same contents in a directory no build has seen.",
         "Any order the explorer picks is an order the Go runtime may pick; the rewritten loop re-checks the key before each iteration (Go's semantics for entries deleted during the loop). Orders beyond the deviation bound, addresses and time are covered only by the repetition runs. Large corpus projects are capped (reported as not exhaustive)."),

 "C18": ("model_checking", "stateless exploration of thread interleavings of the real code under a cooperative scheduler (package sync replaced by a shim through a build overlay; preemption-bounded DFS with replay), plus a separate free-running race-detector pass",
         "For each scenario (two threads building different projects and serialising them; two or three threads serialising one catalog; first use of the library from a fresh process) every interleaving with at most `bound` preemptions / sync.Pool-answer deviations is executed on the real code; each thread must obtain the result of the same calls run alone, without deadlock or panic. Diverging schedules are replayed and re-run with fresh pool objects for attribution. The Go race detector runs the same bodies free-running in a separate -race build.",
         "Scheduling points are the sync operations (and the instant after Pool.Put); effects below that granularity are left to the race detector. For independent builds only objects touched by two threads are scheduling points; every execution asserts the assumption. Executions per scenario are capped in the quick tier (reported)."),
}

NOT_YET = {}

def main():
    props = [json.loads(l) for l in open('/verif/properties.jsonl')]
    try:
        extra = json.load(open('/verif/manifest_extra.json'))
    except Exception:
        extra = {}
    CLAIMED.update({k: tuple(v) for k, v in extra.get('claimed', {}).items()})
    hooks_commits = subprocess.run(['git','-C','/repo','log','--format=%H','--grep=^verif hooks'],capture_output=True,text=True).stdout.split()
    checks = []
    na = []
    for p in props:
        pid = p['id']
        if pid in CLAIMED:
            level, tech, text, note = CLAIMED[pid]
            checks.append({
              "property_id": pid,
              "quick_cmd": f"bin/vcheck {pid} --tier quick",
              "thorough_cmd": f"bin/vcheck {pid} --tier thorough",
              "evidence_file": f"/verif/evidence/{pid}.json",
              "replay_cmd_template": f"bin/vcheck {pid} --replay {{path}}",
              "engine": "vcheck",
              "level_claimed": {"category": level, "text": text, "design_ref": f"DESIGN.md section 5, {pid}"},
              "level_note": note,
              "technique": tech,
            })
        else:
            na.append({"property_id": pid, "reason": extra.get('not_applicable', {}).get(pid, "check not built yet in this session; the design (DESIGN.md section 5) gives the planned bounded exploration")})
    m = {
      "version": 1,
      "setup_cmd": "bin/setup",
      "hooks": {
        "guard": "verif",
        "enable": "go build -tags verif (bin/vcheck builds cmd/vcheck against /repo's working tree with this tag; source rewrites for sync/os/map-range instrumentation are generated per run as go build -overlay files and never committed)",
        "baseline_off_cmd": "cd /repo && GOFLAGS=-mod=mod GOPROXY=off GOSUMDB=off go test -vet=off -count=1 ./...",
        "source_commits": hooks_commits,
        "add_only": True,
      },
      "engines": [
        {"name": "vcheck", "path": "/verif/cmd/vcheck", "serves_properties": sorted(CLAIMED.keys()),
         "kind_free_text": "hand-written bounded model checker in Go: worker-subprocess pool executing the real jsight-api-core code on exhaustively enumerated inputs / state-machine transitions / call histories / schedules, with reference models stepped in lock-step"}
      ],
      "checks": checks,
      "not_applicable": na,
      "notes": "All checks go through bin/vcheck, which rebuilds the checker from /repo's current tree (tag verif) on every invocation (cached by tree hash under /verif/.build). Exit 2 = build/machinery error (never a verdict).",
    }
    json.dump(m, open('/verif/MANIFEST.json','w'), indent=1)
    print("claimed:", sorted(CLAIMED.keys()), "not claimed:", [x['property_id'] for x in na])

main()
